#!/bin/bash
# Runs every seeded change under /verif/seeded against the check of its property (quick tier; if that one does not fire,
# the checks named in meta.json "also_try") and records the outcome in meta.json
cd "$(dirname "$0")"; ROOT=$PWD
for d in seeded/*${1:-}/; do
  id=$(basename $d); prop=${id%%-*}
  also=$(python3 -c "import json;print(' '.join(json.load(open('$d/meta.json')).get('also_try',[])))")
  caught=""; out=""
  for p in $prop $also; do
    res=$(./tools_mutant.sh "$ROOT/$d/patch.diff" $p quick 2>&1 | tail -1)
    case "$res" in
      *"rc=1"*) caught="$caught $p"; out="$res"; [ "$p" = "$prop" ] && break;;
      *"patch does not apply"*) out="patch does not apply to the current tree"; break;;
    esac
  done
  echo "$id caught_by=[${caught# }] :: $(echo "$out" | cut -c1-200)"
  python3 - "$d/meta.json" "$caught" "$out" <<'PY'
import json,sys
p=sys.argv[1]; m=json.load(open(p))
if "does not apply" in sys.argv[3]:
    m["note"]="the patch no longer applies to /repo HEAD (a later fix commit touched the same lines); the result below is from the tree it was written for"
else:
    m["caught_by"]=[c+" quick" for c in sys.argv[2].split()]
    m["check_output"]=sys.argv[3][:600]
json.dump(m,open(p,"w"),indent=1)
PY
done
