#!/bin/bash
# Runs every seeded change under /verif/seeded against the check of its property (quick tier) and records the outcome
cd /verif
for d in seeded/*${1:-}/; do
  id=$(basename $d); prop=${id%%-*}
  res=$(./tools_mutant.sh /verif/$d/patch.diff $prop quick 2>&1 | tail -1)
  rc=$(echo "$res" | sed -n 's/.*rc=\([0-9]*\).*/\1/p')
  echo "$id $prop rc=$rc :: $(echo "$res" | cut -c1-260)"
  python3 - "$d/meta.json" "$prop" "$rc" "$res" <<'PY'
import json,sys
p=sys.argv[1]; m=json.load(open(p))
m["caught_by"]=[sys.argv[2]+" quick"] if sys.argv[3]=="1" else []
m["check_output"]=sys.argv[4][:600]
json.dump(m,open(p,"w"),indent=1)
PY
done
