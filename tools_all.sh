#!/bin/bash
# tools_all.sh [tier] : run every check once, print the summary lines
tier=${1:-quick}
cd "$(dirname "$0")"
for i in 01 02 03 04 05 06 07 08 09 10 11 12 13 14 15 16 17 18 19 20; do
  out=$(./run.sh C$i $tier 2>&1); rc=$?
  echo "rc=$rc $(echo "$out" | tail -1)"
  echo "$out" | grep -E '^(VIOLATION|INCONCLUSIVE|BUILD-FAILED)' | head -3
done
