package fw

// Rand is a splitmix64 generator: every random choice of every check comes from one of these, seeded from
// (VERIF_SEED, property id, case index), so the case list is a pure function of the seed and the tier.
type Rand struct{ s uint64 }

func NewRand(seed uint64) *Rand { return &Rand{s: seed} }

func Mix(a ...uint64) uint64 {
	var h uint64 = 0x9e3779b97f4a7c15
	for _, v := range a {
		h ^= v + 0x9e3779b97f4a7c15 + (h << 6) + (h >> 2)
		h = (h ^ (h >> 30)) * 0xbf58476d1ce4e5b9
		h = (h ^ (h >> 27)) * 0x94d049bb133111eb
		h ^= h >> 31
	}
	return h
}

func HashString(s string) uint64 {
	var h uint64 = 14695981039346656037
	for i := 0; i < len(s); i++ {
		h ^= uint64(s[i])
		h *= 1099511628211
	}
	return h
}

func HashBytes(b []byte) uint64 {
	var h uint64 = 14695981039346656037
	for i := 0; i < len(b); i++ {
		h ^= uint64(b[i])
		h *= 1099511628211
	}
	return h
}

func (r *Rand) U64() uint64 {
	r.s += 0x9e3779b97f4a7c15
	z := r.s
	z = (z ^ (z >> 30)) * 0xbf58476d1ce4e5b9
	z = (z ^ (z >> 27)) * 0x94d049bb133111eb
	return z ^ (z >> 31)
}

// Intn returns a value in [0,n)
func (r *Rand) Intn(n int) int {
	if n <= 0 {
		return 0
	}
	return int(r.U64() % uint64(n))
}

func (r *Rand) I64n(n int64) int64 {
	if n <= 0 {
		return 0
	}
	return int64(r.U64() % uint64(n))
}

// Range returns a value in [lo,hi]
func (r *Rand) Range(lo, hi int) int { return lo + r.Intn(hi-lo+1) }

func (r *Rand) Bool() bool { return r.U64()&1 == 1 }

// P returns true with probability num/den
func (r *Rand) P(num, den int) bool { return r.Intn(den) < num }

func (r *Rand) Float() float64 { return float64(r.U64()>>11) / float64(1<<53) }

func Pick[T any](r *Rand, xs []T) T { return xs[r.Intn(len(xs))] }

func (r *Rand) Perm(n int) []int {
	p := make([]int, n)
	for i := range p {
		p[i] = i
	}
	for i := n - 1; i > 0; i-- {
		j := r.Intn(i + 1)
		p[i], p[j] = p[j], p[i]
	}
	return p
}

func Shuffle[T any](r *Rand, xs []T) {
	for i := len(xs) - 1; i > 0; i-- {
		j := r.Intn(i + 1)
		xs[i], xs[j] = xs[j], xs[i]
	}
}
