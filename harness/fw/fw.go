// Package fw is the small runtime-monitoring framework shared by all checks: deterministic case lists, worker
// processes with breadcrumbs and recover(), three-valued verdicts, known findings, evidence files and replay.
package fw

import (
	"encoding/binary"
	"encoding/json"
	"fmt"
	"io"
	"log"
	"os"
	"os/exec"
	"path/filepath"
	"runtime"
	"runtime/debug"
	"runtime/pprof"
	"sort"
	"strconv"
	"strings"
	"sync"
	"syscall"
	"time"
)

// Status of one case
const (
	Held         = iota // the oracle compared something and agreed
	Violated            // the oracle disagreed: a witness is written
	Known               // disagreement that exactly matches a finding listed in KNOWN_FINDINGS.json
	Trivial             // nothing was compared (generator-side rejection, empty case): not counted as evidence
	Inconclusive        // the case could not be decided
)

// Outcome is what a monitor answers for one case
type Outcome struct {
	Status  int
	Key     uint64      // hash of the case's input, used to count distinct cases (0 = derived from the index)
	Detail  string      // what was observed (violations, inconclusive)
	Finding string      // id of the known finding (Status == Known)
	Sample  interface{} // the case written out, kept for a few cases per run
	Input   interface{} // replay payload for a violation
}

func OK(key uint64, sample interface{}) Outcome {
	return Outcome{Status: Held, Key: key, Sample: sample}
}
func Bad(key uint64, input interface{}, format string, a ...interface{}) Outcome {
	return Outcome{Status: Violated, Key: key, Input: input, Detail: fmt.Sprintf(format, a...)}
}
func Skip() Outcome { return Outcome{Status: Trivial} }

// Ctx is handed to a monitor for every case
type Ctx struct {
	Prop   string
	Tier   string
	Seed   int64
	Idx    int64
	R      *Rand
	Replay bool // true when a single case is re-run for diagnosis: monitors may print more
	w      *worker
}

func (c *Ctx) Thorough() bool { return c.Tier == "thorough" }

// Count adds to a named counter of observed events (reported in the evidence file)
func (c *Ctx) Count(name string, n int64) {
	c.w.mu.Lock()
	c.w.res.Counters[name] += n
	c.w.mu.Unlock()
}

// Feature records a feature vector (syntactic/semantic shape) that the case exercised
func (c *Ctx) Feature(f string) {
	c.w.mu.Lock()
	c.w.res.Features[f]++
	c.w.mu.Unlock()
}

// IsKnown tells whether a finding id is listed in KNOWN_FINDINGS.json (the file is read-only at run time)
func (c *Ctx) IsKnown(id string) bool { return c.w.known[id] }

func (c *Ctx) Logf(format string, a ...interface{}) {
	if c.Replay {
		fmt.Printf(format+"\n", a...)
	}
}

// TmpDir returns a scratch directory private to this worker, under /verif/tmp, removed at the end of the run
func (c *Ctx) TmpDir() string { return c.w.tmp }

// Property describes one check
type Property struct {
	ID           string
	Level        string // exploration | fault_enumeration
	Rule         string
	Assumptions  []string
	Cases        func(tier string) int64
	Run          func(c *Ctx) Outcome
	Workers      int                      // 0 = up to 16
	Setup        func(c *Ctx) error       // once per worker, before the cases
	Final        func(c *Ctx) []Outcome   // once per worker, after the cases (state canaries…)
	MinDistinct  func(tier string) int64  // below this many distinct non-trivial cases the run is inconclusive
	Exhaustive   func(tier string) string // non-empty: description of the finite space enumerated completely
	Timeout      func(tier string) time.Duration
	Driver       func(d *DriverCtx) []Outcome // optional process-level phase run by the driver itself
	Anchors      []string                     // functions whose execution the workload must reach (informational)
	StallSeconds int                          // a case running longer than this is handled by the hang protocol (default 300)
}

// DriverCtx is handed to the optional driver-level phase
type DriverCtx struct {
	Prop, Tier string
	Seed       int64
	Exe        string // path of this binary
	Tmp        string
	Known      map[string]bool
	Counters   map[string]int64
}

var registry = map[string]*Property{}

func Register(p *Property) { registry[p.ID] = p }

func Root() string {
	if v := os.Getenv("VERIF_ROOT"); v != "" {
		return v
	}
	return "/verif"
}

type workerResult struct {
	Evaluated    int64
	Compared     int64
	Counters     map[string]int64
	Features     map[string]int64
	Violations   []violation
	KnownHits    map[string]knownHit
	Inconclusive []string
	Samples      []interface{}
}

type violation struct {
	Idx    int64
	Detail string
	Input  interface{}
}

type knownHit struct {
	Count   int64
	Example string
}

type worker struct {
	mu    sync.Mutex
	res   workerResult
	known map[string]bool
	tmp   string
	keys  []uint64
}

type knownFile struct {
	Findings []struct {
		ID       string `json:"id"`
		Property string `json:"property"`
		What     string `json:"what"`
	} `json:"findings"`
}

func loadKnown() (map[string]bool, map[string]string) {
	m := map[string]bool{}
	what := map[string]string{}
	b, err := os.ReadFile(filepath.Join(Root(), "KNOWN_FINDINGS.json"))
	if err != nil {
		return m, what
	}
	var kf knownFile
	if err := json.Unmarshal(b, &kf); err != nil {
		fmt.Fprintf(os.Stderr, "KNOWN_FINDINGS.json unreadable: %v\n", err)
		os.Exit(2)
	}
	for _, f := range kf.Findings {
		m[f.ID] = true
		what[f.ID] = f.What
	}
	return m, what
}

func seedFromEnv() int64 {
	if v := os.Getenv("VERIF_SEED"); v != "" {
		if n, err := strconv.ParseInt(v, 10, 64); err == nil {
			return n
		}
	}
	return 1
}

func caseRand(seed int64, prop string, idx int64) *Rand {
	return NewRand(Mix(uint64(seed), HashString(prop), uint64(idx)))
}

// runCase executes one case under recover()
func runCase(p *Property, c *Ctx) (o Outcome) {
	defer func() {
		if r := recover(); r != nil {
			st := string(debug.Stack())
			// whose panic is it? The frames between the panic and this function tell: if none of them belongs to the
			// library, the monitor's own code failed (a defect of the harness: inconclusive, never an alarm)
			where := st
			if i := strings.Index(where, "panic("); i >= 0 {
				where = where[i:]
			}
			if j := strings.Index(where, "fw.runCase("); j >= 0 {
				where = where[:j]
			}
			if strings.Contains(where, "github.com/asticode/go-astisub") || strings.Contains(where, "github.com/asticode/go-astits") || strings.Contains(where, "github.com/asticode/go-astikit") {
				o = Outcome{Status: Violated, Detail: fmt.Sprintf("the library panicked outside a guarded call: %v\n%s", r, st)}
			} else {
				o = Outcome{Status: Inconclusive, Detail: fmt.Sprintf("the monitor's own code panicked (no library frame on the stack: a defect of the harness, nothing is concluded about the library): %v\n%s", r, st)}
			}
		}
	}()
	return p.Run(c)
}

// Main is the entry point of the vcheck binary
func Main() {
	log.SetOutput(io.Discard) // the library logs through the global logger
	if len(os.Args) < 2 {
		fmt.Fprintln(os.Stderr, "usage: vcheck run <ID> <tier> | worker <ID> <tier> <w> <n> <dir> | replay <path> | case <ID> <tier> <idx> | list")
		os.Exit(2)
	}
	switch os.Args[1] {
	case "list":
		var ids []string
		for id := range registry {
			ids = append(ids, id)
		}
		sort.Strings(ids)
		fmt.Println(strings.Join(ids, " "))
	case "run":
		os.Exit(drive(os.Args[2], os.Args[3]))
	case "worker":
		w, _ := strconv.Atoi(os.Args[4])
		n, _ := strconv.Atoi(os.Args[5])
		work(os.Args[2], os.Args[3], w, n, os.Args[6])
	case "case":
		idx, _ := strconv.ParseInt(os.Args[4], 10, 64)
		if pf := os.Getenv("VERIF_CPUPROFILE"); pf != "" {
			// development aid: profile one case, repeated so that the profile has something in it
			f, _ := os.Create(pf)
			pprof.StartCPUProfile(f)
			rc := 0
			for i := 0; i < 20; i++ {
				rc = single(os.Args[2], os.Args[3], seedFromEnv(), idx, i == 0)
			}
			pprof.StopCPUProfile()
			f.Close()
			os.Exit(rc)
		}
		os.Exit(single(os.Args[2], os.Args[3], seedFromEnv(), idx, true))
	case "probe": // used by the hang protocol: run one case silently
		idx, _ := strconv.ParseInt(os.Args[4], 10, 64)
		os.Exit(single(os.Args[2], os.Args[3], seedFromEnv(), idx, false))
	case "replay":
		b, err := os.ReadFile(os.Args[2])
		if err != nil {
			fmt.Fprintln(os.Stderr, err)
			os.Exit(2)
		}
		var r struct {
			Property string `json:"property"`
			Tier     string `json:"tier"`
			Seed     int64  `json:"seed"`
			Idx      int64  `json:"idx"`
		}
		if err := json.Unmarshal(b, &r); err != nil {
			fmt.Fprintln(os.Stderr, err)
			os.Exit(2)
		}
		os.Exit(single(r.Property, r.Tier, r.Seed, r.Idx, true))
	default:
		if h, ok := extraCommands[os.Args[1]]; ok {
			os.Exit(h(os.Args[2:]))
		}
		fmt.Fprintln(os.Stderr, "unknown command", os.Args[1])
		os.Exit(2)
	}
}

var extraCommands = map[string]func(args []string) int{}

// RegisterCommand lets a monitor add a helper sub-command (child processes for cross-process checks)
func RegisterCommand(name string, h func(args []string) int) { extraCommands[name] = h }

func single(id, tier string, seed, idx int64, verbose bool) int {
	p := registry[id]
	if p == nil {
		fmt.Fprintln(os.Stderr, "unknown property", id)
		return 2
	}
	known, _ := loadKnown()
	tmp, _ := os.MkdirTemp(tmpRoot(), id+"-single-")
	defer os.RemoveAll(tmp)
	w := &worker{known: known, tmp: tmp}
	w.res.Counters = map[string]int64{}
	w.res.Features = map[string]int64{}
	c := &Ctx{Prop: id, Tier: tier, Seed: seed, Idx: idx, R: caseRand(seed, id, idx), Replay: verbose, w: w}
	if p.Setup != nil {
		if err := p.Setup(c); err != nil {
			fmt.Fprintln(os.Stderr, "setup:", err)
			return 2
		}
	}
	o := runCase(p, c)
	if verbose {
		names := []string{"held", "VIOLATED", "known-finding", "trivial", "inconclusive"}
		fmt.Printf("case %s/%s seed=%d idx=%d: %s %s %s\n", id, tier, seed, idx, names[o.Status], o.Finding, o.Detail)
		if o.Sample != nil {
			b, _ := json.MarshalIndent(o.Sample, "", " ")
			fmt.Printf("sample: %s\n", b)
		}
	}
	if o.Status == Violated {
		return 1
	}
	return 0
}

func tmpRoot() string {
	d := filepath.Join(Root(), "tmp")
	os.MkdirAll(d, 0o755)
	return d
}

// work is the worker process: cases idx ≡ w (mod n)
func work(id, tier string, wi, n int, dir string) {
	p := registry[id]
	if p == nil {
		fmt.Fprintln(os.Stderr, "unknown property", id)
		os.Exit(2)
	}
	seed := seedFromEnv()
	known, _ := loadKnown()
	tmp := filepath.Join(dir, fmt.Sprintf("w%d.tmp", wi))
	os.MkdirAll(tmp, 0o755)
	w := &worker{known: known, tmp: tmp}
	w.res.Counters = map[string]int64{}
	w.res.Features = map[string]int64{}
	w.res.KnownHits = map[string]knownHit{}
	crumb, err := os.OpenFile(filepath.Join(dir, fmt.Sprintf("w%d.crumb", wi)), os.O_CREATE|os.O_WRONLY, 0o644)
	if err != nil {
		fmt.Fprintln(os.Stderr, err)
		os.Exit(2)
	}
	var cb [8]byte
	total := p.Cases(tier)
	if p.Setup != nil {
		c := &Ctx{Prop: id, Tier: tier, Seed: seed, Idx: -1, R: caseRand(seed, id, -1), w: w}
		if err := p.Setup(c); err != nil {
			fmt.Fprintln(os.Stderr, "setup:", err)
			os.Exit(2)
		}
	}
	record := func(idx int64, o Outcome) {
		w.res.Evaluated++
		switch o.Status {
		case Held, Known, Violated:
			w.res.Compared++
			k := o.Key
			if k == 0 {
				k = Mix(uint64(idx), 0x51ed)
			}
			w.keys = append(w.keys, k)
		}
		switch o.Status {
		case Held:
			if len(w.res.Samples) < 3 && o.Sample != nil {
				w.res.Samples = append(w.res.Samples, o.Sample)
			}
		case Violated:
			if len(w.res.Violations) < 20 {
				w.res.Violations = append(w.res.Violations, violation{Idx: idx, Detail: o.Detail, Input: o.Input})
			} else {
				w.res.Counters["violations_not_listed"]++
			}
		case Known:
			h := w.res.KnownHits[o.Finding]
			h.Count++
			if h.Example == "" {
				h.Example = fmt.Sprintf("case %d: %s", idx, o.Detail)
			}
			w.res.KnownHits[o.Finding] = h
		case Inconclusive:
			if len(w.res.Inconclusive) < 10 {
				w.res.Inconclusive = append(w.res.Inconclusive, fmt.Sprintf("case %d: %s", idx, o.Detail))
			}
			w.res.Counters["inconclusive_cases"]++
		}
	}
	for idx := int64(wi); idx < total; idx += int64(n) {
		binary.LittleEndian.PutUint64(cb[:], uint64(idx))
		crumb.WriteAt(cb[:], 0)
		c := &Ctx{Prop: id, Tier: tier, Seed: seed, Idx: idx, R: caseRand(seed, id, idx), w: w}
		record(idx, runCase(p, c))
	}
	if p.Final != nil {
		c := &Ctx{Prop: id, Tier: tier, Seed: seed, Idx: -2, R: caseRand(seed, id, -2), w: w}
		for _, o := range p.Final(c) {
			record(-2, o)
		}
	}
	// Results
	f, err := os.Create(filepath.Join(dir, fmt.Sprintf("w%d.json", wi)))
	if err != nil {
		fmt.Fprintln(os.Stderr, err)
		os.Exit(2)
	}
	json.NewEncoder(f).Encode(&w.res)
	f.Close()
	kb := make([]byte, 8*len(w.keys))
	for i, k := range w.keys {
		binary.LittleEndian.PutUint64(kb[8*i:], k)
	}
	os.WriteFile(filepath.Join(dir, fmt.Sprintf("w%d.keys", wi)), kb, 0o644)
	os.RemoveAll(tmp)
}

func tierTimeout(p *Property, tier string) time.Duration {
	if p.Timeout != nil {
		return p.Timeout(tier)
	}
	if tier == "thorough" {
		return 3 * time.Hour
	}
	return 20 * time.Minute
}

// drive is the driver: fan out, merge, classify, evidence, verdict
func drive(id, tier string) int {
	p := registry[id]
	if p == nil {
		fmt.Fprintln(os.Stderr, "unknown property", id)
		return 2
	}
	start := time.Now()
	seed := seedFromEnv()
	known, knownWhat := loadKnown()
	exe, _ := os.Executable()
	dir, err := os.MkdirTemp(tmpRoot(), id+"-"+tier+"-")
	if err != nil {
		fmt.Fprintln(os.Stderr, err)
		return 2
	}
	defer os.RemoveAll(dir)
	total := p.Cases(tier)
	n := p.Workers
	if n == 0 {
		n = runtime.NumCPU()
		if n > 16 {
			n = 16
		}
	}
	if int64(n) > total {
		n = int(total)
	}
	if n < 1 {
		n = 1
	}

	type wstate struct {
		cmd      *exec.Cmd
		done     chan error
		err      error
		timedOut bool
	}
	ws := make([]*wstate, n)
	for i := 0; i < n; i++ {
		cmd := exec.Command(exe, "worker", id, tier, strconv.Itoa(i), strconv.Itoa(n), dir)
		errf, _ := os.Create(filepath.Join(dir, fmt.Sprintf("w%d.stderr", i)))
		cmd.Stderr = errf
		cmd.Stdout = errf
		cmd.Env = append(os.Environ(), "GOTRACEBACK=all")
		st := &wstate{cmd: cmd, done: make(chan error, 1)}
		if err := cmd.Start(); err != nil {
			fmt.Fprintln(os.Stderr, "cannot start worker:", err)
			return 2
		}
		go func() { st.done <- cmd.Wait(); errf.Close() }()
		ws[i] = st
	}
	deadline := time.After(tierTimeout(p, tier))
	// stall detector: a worker whose breadcrumb has not moved for StallSeconds is treated like a watchdog timeout
	stall := 300 * time.Second
	if p.StallSeconds > 0 {
		stall = time.Duration(p.StallSeconds) * time.Second
	}
	stalled := make(chan int, 1)
	stalledWorker := -1
	stopPoll := make(chan struct{})
	defer close(stopPoll)
	go func() {
		last := make([]int64, n)
		since := make([]time.Time, n)
		for i := range since {
			last[i], since[i] = -99, time.Now()
		}
		t := time.NewTicker(time.Second)
		defer t.Stop()
		for {
			select {
			case <-stopPoll:
				return
			case <-t.C:
				for i := 0; i < n; i++ {
					b, err := os.ReadFile(filepath.Join(dir, fmt.Sprintf("w%d.crumb", i)))
					if err != nil || len(b) < 8 {
						continue
					}
					if _, err := os.Stat(filepath.Join(dir, fmt.Sprintf("w%d.json", i))); err == nil {
						since[i] = time.Now()
						continue
					}
					v := int64(binary.LittleEndian.Uint64(b))
					if v != last[i] {
						last[i], since[i] = v, time.Now()
					} else if time.Since(since[i]) > stall {
						select {
						case stalled <- i:
						default:
						}
						return
					}
				}
			}
		}
	}()
	for i := 0; i < n; i++ {
		select {
		case ws[i].err = <-ws[i].done:
		case stalledWorker = <-stalled:
			deadline = time.After(0)
			i--
		case <-deadline:
			// Watchdog: dump goroutines, then kill every remaining worker
			for j := i; j < n; j++ {
				select {
				case ws[j].err = <-ws[j].done:
				default:
					ws[j].timedOut = true
					ws[j].cmd.Process.Signal(syscall.SIGQUIT)
				}
			}
			time.Sleep(2 * time.Second)
			for j := i; j < n; j++ {
				if ws[j].timedOut {
					ws[j].cmd.Process.Kill()
					<-ws[j].done
				}
			}
			i = n
		}
	}

	// Merge
	var merged workerResult
	merged.Counters = map[string]int64{}
	merged.Features = map[string]int64{}
	merged.KnownHits = map[string]knownHit{}
	keys := map[uint64]struct{}{}
	var inconclusive []string
	replayDir := filepath.Join(Root(), "replay", id)
	addViolation := func(v violation) {
		merged.Violations = append(merged.Violations, v)
	}
	readCrumb := func(i int) int64 {
		b, err := os.ReadFile(filepath.Join(dir, fmt.Sprintf("w%d.crumb", i)))
		if err != nil || len(b) < 8 {
			return -1
		}
		return int64(binary.LittleEndian.Uint64(b))
	}
	for i := 0; i < n; i++ {
		st := ws[i]
		if st.timedOut && stalledWorker >= 0 && i != stalledWorker {
			// killed together with the stalled worker: its remaining cases were not run
			inconclusive = append(inconclusive, fmt.Sprintf("worker %d was stopped at case %d because worker %d stalled; its remaining cases were not run", i, readCrumb(i), stalledWorker))
			continue
		}
		if st.timedOut {
			idx := readCrumb(i)
			// Hang protocol: re-run the case alone three times with a generous limit
			hangs := 0
			for k := 0; k < 3 && idx >= 0; k++ {
				cmd := exec.Command(exe, "probe", id, tier, strconv.FormatInt(idx, 10))
				cmd.Env = append(os.Environ(), "VERIF_SEED="+strconv.FormatInt(seed, 10))
				done := make(chan error, 1)
				cmd.Start()
				go func() { done <- cmd.Wait() }()
				select {
				case <-done:
				case <-time.After(60 * time.Second):
					cmd.Process.Kill()
					<-done
					hangs++
				}
			}
			if hangs == 3 {
				tail := tailFile(filepath.Join(dir, fmt.Sprintf("w%d.stderr", i)), 6000)
				addViolation(violation{Idx: idx, Detail: "case does not terminate (watchdog fired, 3 isolated re-runs exceeded 60 s)\n" + tail})
			} else {
				inconclusive = append(inconclusive, fmt.Sprintf("worker %d hit the wall-clock watchdog at case %d; isolated re-runs terminated (%d/3 slow)", i, idx, hangs))
			}
			continue
		}
		if st.err != nil {
			idx := readCrumb(i)
			tail := tailFile(filepath.Join(dir, fmt.Sprintf("w%d.stderr", i)), 8000)
			if n := strings.Count(tail, "WARNING: DATA RACE"); n > 0 {
				// the race detector lets the worker finish (halt_on_error=0) and makes it exit non-zero
				addViolation(violation{Idx: -4, Detail: fmt.Sprintf("the race detector reported %d data race(s) in worker %d:\n%s", n, i, tail)})
				merged.Counters["race_reports"] += int64(n)
			} else {
				addViolation(violation{Idx: idx, Detail: fmt.Sprintf("worker process died (%v) while running case %d\n%s", st.err, idx, tail)})
				continue
			}
		}
		b, err := os.ReadFile(filepath.Join(dir, fmt.Sprintf("w%d.json", i)))
		var r workerResult
		if err == nil {
			err = json.Unmarshal(b, &r)
		}
		if err != nil {
			inconclusive = append(inconclusive, fmt.Sprintf("worker %d produced no readable result: %v", i, err))
			continue
		}
		merged.Evaluated += r.Evaluated
		merged.Compared += r.Compared
		for k, v := range r.Counters {
			merged.Counters[k] += v
		}
		for k, v := range r.Features {
			merged.Features[k] += v
		}
		for k, v := range r.KnownHits {
			h := merged.KnownHits[k]
			h.Count += v.Count
			if h.Example == "" {
				h.Example = v.Example
			}
			merged.KnownHits[k] = h
		}
		merged.Violations = append(merged.Violations, r.Violations...)
		merged.Inconclusive = append(merged.Inconclusive, r.Inconclusive...)
		if len(merged.Samples) < 3 {
			merged.Samples = append(merged.Samples, r.Samples...)
		}
		kb, _ := os.ReadFile(filepath.Join(dir, fmt.Sprintf("w%d.keys", i)))
		for j := 0; j+8 <= len(kb); j += 8 {
			keys[binary.LittleEndian.Uint64(kb[j:])] = struct{}{}
		}
	}
	if len(merged.Samples) > 3 {
		merged.Samples = merged.Samples[:3]
	}

	// probes killed by the hang protocol leave their scratch directory behind
	if leftovers, _ := filepath.Glob(filepath.Join(tmpRoot(), id+"-single-*")); len(leftovers) > 0 {
		for _, l := range leftovers {
			os.RemoveAll(l)
		}
	}

	// Optional driver-level phase
	if p.Driver != nil {
		dc := &DriverCtx{Prop: id, Tier: tier, Seed: seed, Exe: exe, Tmp: dir, Known: known, Counters: merged.Counters}
		for k, o := range p.Driver(dc) {
			merged.Evaluated++
			switch o.Status {
			case Held:
				merged.Compared++
				keys[Mix(o.Key, uint64(k), 0xd1)] = struct{}{}
				if len(merged.Samples) < 3 && o.Sample != nil {
					merged.Samples = append(merged.Samples, o.Sample)
				}
			case Violated:
				merged.Compared++
				addViolation(violation{Idx: -3 - int64(k), Detail: o.Detail, Input: o.Input})
			case Known:
				merged.Compared++
				h := merged.KnownHits[o.Finding]
				h.Count++
				if h.Example == "" {
					h.Example = o.Detail
				}
				merged.KnownHits[o.Finding] = h
			case Inconclusive:
				inconclusive = append(inconclusive, o.Detail)
			}
		}
	}
	inconclusive = append(inconclusive, merged.Inconclusive...)
	distinct := int64(len(keys))
	if p.MinDistinct != nil && len(merged.Violations) == 0 {
		if min := p.MinDistinct(tier); distinct < min {
			inconclusive = append(inconclusive, fmt.Sprintf("only %d distinct non-trivial cases were decided, the floor for this tier is %d", distinct, min))
		}
	}
	if merged.Compared == 0 && len(merged.Violations) == 0 {
		inconclusive = append(inconclusive, "no case was compared by the oracle")
	}

	// Verdict lines
	rc := 0
	var knownIDs []string
	for k := range merged.KnownHits {
		knownIDs = append(knownIDs, k)
	}
	sort.Strings(knownIDs)
	knownOut := map[string]interface{}{}
	for _, k := range knownIDs {
		h := merged.KnownHits[k]
		if !known[k] {
			// A monitor may only answer Known for listed ids; anything else is a violation
			addViolation(violation{Idx: -1, Detail: "monitor matched an unlisted finding " + k + ": " + h.Example})
			continue
		}
		fmt.Printf("KNOWN-FINDING: property=%s %s %s (matched %d cases; e.g. %s)\n", id, k, knownWhat[k], h.Count, oneLine(h.Example, 300))
		knownOut[k] = map[string]interface{}{"matched_cases": h.Count, "example": h.Example}
	}
	sort.Slice(merged.Violations, func(i, j int) bool { return merged.Violations[i].Idx < merged.Violations[j].Idx })
	for k, v := range merged.Violations {
		if k >= 5 {
			break
		}
		os.MkdirAll(replayDir, 0o755)
		path := filepath.Join(replayDir, fmt.Sprintf("%s-seed%d-case%d.json", tier, seed, v.Idx))
		b, _ := json.MarshalIndent(map[string]interface{}{"property": id, "tier": tier, "seed": seed, "idx": v.Idx, "detail": v.Detail, "input": v.Input}, "", " ")
		os.WriteFile(path, b, 0o644)
		fmt.Printf("VIOLATION property=%s replay=%s\n", id, path)
		fmt.Printf("  detail: %s\n", oneLine(v.Detail, 1200))
		rc = 1
	}
	for _, s := range inconclusive {
		fmt.Printf("INCONCLUSIVE property=%s %s\n", id, oneLine(s, 400))
	}

	// Evidence
	rule := p.Rule
	exhaustive := ""
	if p.Exhaustive != nil {
		exhaustive = p.Exhaustive(tier)
	}
	type fc struct {
		F string
		N int64
	}
	var fcs []fc
	for k, v := range merged.Features {
		fcs = append(fcs, fc{k, v})
	}
	sort.Slice(fcs, func(i, j int) bool {
		if fcs[i].N != fcs[j].N {
			return fcs[i].N > fcs[j].N
		}
		return fcs[i].F < fcs[j].F
	})
	top := map[string]int64{}
	for i, f := range fcs {
		if i >= 40 {
			break
		}
		top[f.F] = f.N
	}
	samples := merged.Samples
	if len(samples) == 0 {
		samples = []interface{}{"(no sample: no case was compared)"}
	}
	cov := map[string]interface{}{
		"evaluations":         merged.Evaluated,
		"compared":            merged.Compared,
		"distinct_nontrivial": distinct,
		"rule":                rule,
		"samples":             samples,
		"distinct_features":   len(merged.Features),
		"features_top":        top,
		"events":              merged.Counters,
		"known_findings":      knownOut,
		"inconclusive":        len(inconclusive) > 0,
		"workers":             n,
		"anchors":             p.Anchors,
	}
	if len(inconclusive) > 0 {
		cov["inconclusive_reason"] = inconclusive
	}
	if exhaustive != "" {
		cov["exhaustive"] = true
		cov["exhaustive_space"] = exhaustive
	}
	ev := map[string]interface{}{
		"property_id": id,
		"tier":        tier,
		"seed":        seed,
		"level":       p.Level,
		"coverage":    cov,
		"assumptions": p.Assumptions,
		"wall_s":      time.Since(start).Seconds(),
		"violations":  len(merged.Violations),
	}
	// VERIF_EVIDENCE_DIR is set only by the seeded-change tools, so that runs against a deliberately broken tree do
	// not overwrite the evidence of the registered checks
	evDir := filepath.Join(Root(), "evidence")
	if d := os.Getenv("VERIF_EVIDENCE_DIR"); d != "" {
		evDir = d
	}
	os.MkdirAll(evDir, 0o755)
	b, _ := json.MarshalIndent(ev, "", " ")
	os.WriteFile(filepath.Join(evDir, id+".json"), append(b, '\n'), 0o644)
	verdict := "HELD"
	if rc != 0 {
		verdict = "VIOLATED"
	} else if len(inconclusive) > 0 {
		verdict = "INCONCLUSIVE(partly)"
	}
	fmt.Printf("%s %s/%s seed=%d: %s evaluations=%d compared=%d distinct=%d features=%d known=%d violations=%d wall=%.1fs\n",
		id, tier, p.Level, seed, verdict, merged.Evaluated, merged.Compared, distinct, len(merged.Features), len(knownOut), len(merged.Violations), time.Since(start).Seconds())
	return rc
}

func oneLine(s string, max int) string {
	s = strings.ReplaceAll(s, "\n", " | ")
	if len(s) > max {
		s = s[:max] + "…"
	}
	return s
}

func tailFile(path string, n int) string {
	b, err := os.ReadFile(path)
	if err != nil {
		return ""
	}
	if len(b) > n {
		// keep the head (panic message) and the tail
		return string(b[:n/2]) + "\n…\n" + string(b[len(b)-n/2:])
	}
	return string(b)
}
