module verif/harness

go 1.21

require (
	github.com/asticode/go-astikit v0.20.0
	github.com/asticode/go-astisub v0.0.0
	golang.org/x/text v0.3.2
)

require (
	github.com/asticode/go-astits v1.8.0 // indirect
	golang.org/x/net v0.0.0-20200904194848-62affa334b73 // indirect
)

replace github.com/asticode/go-astisub => /repo
