// vcheck is the single monitor binary: it links /repo's current tree (rebuilt by run.sh on every check) and is
// both the driver and, re-executed, the worker processes.
package main

import (
	"verif/harness/fw"
	_ "verif/harness/props"
)

func main() { fw.Main() }
