package props

import (
	"bytes"
	"errors"
	"fmt"
	"io"
	"os"
	"os/exec"
	"path/filepath"
	"runtime"
	"strings"
	"syscall"
	"time"

	astisub "github.com/asticode/go-astisub"
	"verif/harness/fw"
)

// C18 I/O faults are reported, never swallowed.

var errInjected = errors.New("injected I/O fault")

// error values a failing stream may return: none of them is io.EOF, so none may be taken for the end of the document
// (round 13: nor is an error that merely wraps io.EOF - io.Reader's end-of-stream signal is the bare value)
var faultErrors = []error{errInjected, io.ErrUnexpectedEOF, io.ErrClosedPipe, io.ErrNoProgress, syscall.EIO, os.ErrDeadlineExceeded,
	fmt.Errorf("read tcp 10.0.0.7:443: connection reset: %w", io.EOF), &os.PathError{Op: "read", Path: "/mnt/share/a.stl", Err: io.EOF}}

// faultReader delivers the first k bytes (in chunks) and then fails with a non-EOF error, either on its own
// (0, err) or together with the last chunk (m>0, err)
type faultReader struct {
	err      error
	data     []byte
	k        int
	withData bool
	chunk    int
	pos      int
	faults   int
}

func (f *faultReader) Read(p []byte) (int, error) {
	if len(p) == 0 {
		return 0, nil
	}
	if f.pos >= f.k {
		f.faults++
		return 0, f.err
	}
	n := f.k - f.pos
	if n > len(p) {
		n = len(p)
	}
	if f.chunk > 0 && n > f.chunk {
		n = f.chunk
	}
	copy(p, f.data[f.pos:f.pos+n])
	f.pos += n
	if f.pos >= f.k && f.withData {
		f.faults++
		return n, f.err
	}
	return n, nil
}

func (f *faultReader) Seek(off int64, whence int) (int64, error) {
	if whence == io.SeekStart {
		f.pos = int(off)
	}
	return int64(f.pos), nil
}

// the writers again with their options set (an option may select another output path inside the writer)
var c18OptionWriters = []namedWriter{
	{"ttml (no indentation)", func(s astisub.Subtitles, w io.Writer) error {
		return s.WriteToTTML(w, astisub.WriteToTTMLWithIndentOption(""))
	}},
	{"ttml (tab indentation)", func(s astisub.Subtitles, w io.Writer) error {
		return s.WriteToTTML(w, astisub.WriteToTTMLWithIndentOption("\t"))
	}},
}

// faultWriter accepts k bytes and then fails, either after a partial write or refusing the whole chunk
type faultWriter struct {
	k       int
	partial bool
	full    bool // the failing write reports the whole chunk as written together with the error (a tee or flushing sink)
	buf     bytes.Buffer
	faults  int
	writes  int
}

func (f *faultWriter) Write(p []byte) (int, error) {
	f.writes++
	if f.buf.Len()+len(p) <= f.k {
		return f.buf.Write(p)
	}
	f.faults++
	if f.full {
		f.buf.Write(p)
		return len(p), errInjected
	}
	if f.partial {
		n := f.k - f.buf.Len()
		f.buf.Write(p[:n])
		return n, errInjected
	}
	return 0, errInjected
}

// ttmlRootEnd returns the offset just after the root element's end tag
func ttmlRootEnd(b []byte) int {
	i := bytes.LastIndex(b, []byte("</"))
	if i < 0 {
		return len(b)
	}
	j := bytes.IndexByte(b[i:], '>')
	if j < 0 {
		return len(b)
	}
	return i + j + 1
}

func c18ReadFaults(c *fw.Ctx, d corpusDoc, sample int) *fw.Outcome {
	n := len(d.Data)
	key := fw.Mix(fw.HashBytes(d.Data), 0xc18)
	limit := n
	if d.Format == "ttml" {
		limit = ttmlRootEnd(d.Data) - 1 // beyond the end of the root element either outcome is accepted
	}
	// the reference parse must succeed for "shorter list" to be meaningful; a failing document must fail under faults too
	var offsets []int
	if sample <= 0 || n <= sample {
		for k := 0; k <= limit; k++ {
			offsets = append(offsets, k)
		}
	} else {
		for k := 0; k <= 64 && k <= limit; k++ {
			offsets = append(offsets, k)
		}
		for i := 0; i < sample; i++ {
			offsets = append(offsets, c.R.Intn(limit+1))
		}
		for k := limit - 64; k <= limit; k++ {
			if k > 64 {
				offsets = append(offsets, k)
			}
		}
	}
	if d.Format == "stl" {
		// every block boundary: a fault there must not be taken for the end of the file
		nb := (limit - 1024) / 128
		for j := 0; j <= nb; j++ {
			if nb <= 100 || j < 20 || j > nb-20 || c.R.P(60, nb) {
				offsets = append(offsets, 1024+128*j)
			}
		}
	}
	for _, k := range offsets {
		for _, withData := range []bool{false, true} {
			if withData && k == 0 {
				continue
			}
			fr := &faultReader{err: fw.Pick(c.R, faultErrors), data: d.Data, k: k, withData: withData, chunk: fw.Pick(c.R, []int{0, 0, 512, 100})}
			var sub *astisub.Subtitles
			var err error
			p := guard(func() { sub, err = d.Read(fr) })
			c.Count("read_faults_injected", 1)
			if p != "" {
				o := fw.Bad(key, fmt.Sprintf("%x", d.Data), "%s reader panicked when the stream failed at offset %d: %s", d.Format, k, p)
				return &o
			}
			if err == nil {
				if fr.faults == 0 {
					c.Count("fault_not_reached", 1)
					if d.Format == "srt" || d.Format == "webvtt" || d.Format == "ssa" || d.Format == "stl" {
						// these readers have no reason to stop before the end of the stream: a reader that returns
						// success without having asked for the bytes behind offset k has cut the document short, and a
						// failure of the stream there goes unnoticed
						cues := 0
						if sub != nil {
							cues = len(sub.Items)
						}
						o := fw.Bad(key, fmt.Sprintf("%x", d.Data), "%s reader: the stream was set to fail at offset %d of %d, but the reader returned %d cues and a nil error without ever reading that far: it stops before the end of the document, so a failure of the stream behind that point is never reported", d.Format, k, n, cues)
						return &o
					}
					continue // (TTML stops at the end of the root element, the demultiplexer at its own pace)
				}
				cues := 0
				if sub != nil {
					cues = len(sub.Items)
				}
				o := fw.Bad(key, fmt.Sprintf("%x", d.Data), "%s reader: the stream failed with %q at offset %d of %d (error delivered %s) but the reader returned %d cues and a nil error", d.Format, fr.err, k, n, map[bool]string{false: "alone", true: "together with the last bytes"}[withData], cues)
				return &o
			}
		}
	}
	return nil
}

func c18WriteFaults(c *fw.Ctx, seed uint64) *fw.Outcome {
	s := richSubtitles(fw.NewRand(seed))
	key := fw.Mix(seed, 0xc18f)
	if n := len(s.Items); n > 0 && seed%2 == 0 {
		// the last characters of the last cue are white space of some kind: they belong to the document as well
		if ls := s.Items[n-1].Lines; len(ls) > 0 && len(ls[len(ls)-1].Items) > 0 {
			li := &ls[len(ls)-1].Items[len(ls[len(ls)-1].Items)-1]
			li.Text += []string{" ", "\t", "\u3000", "\u2003 "}[seed/2%4]
		}
	}
	for _, w := range append(append([]namedWriter(nil), allWriters...), c18OptionWriters...) {
		ref, rerr, p := writeBytes(w, s)
		if p != "" || rerr != nil {
			continue // C08 / C19 territory
		}
		// every cue of the list is in the document: one timing line / event / paragraph / TTI block (at least) per cue
		if n := len(s.Items); n > 0 {
			have := -1
			switch w.name {
			case "srt", "webvtt":
				have = bytes.Count(ref, []byte(" --> "))
			case "ssa":
				have = bytes.Count(ref, []byte("\nDialogue: "))
			case "ttml":
				have = bytes.Count(ref, []byte("<p "))
			case "stl":
				have = (len(ref) - 1024) / 128
			}
			if have >= 0 {
				c.Count("documents_counted_cue_by_cue", 1)
				if have < n {
					o := fw.Bad(key, nil, "%s writer returned a nil error on a list of %d cues, but the document handed over (%d bytes) holds %d of them (list seed %d)", w.name, n, len(ref), have, seed)
					return &o
				}
			}
		}
		// the line-oriented writers put one cue after the other: the document of a list is the beginning of the document
		// of the same list with one more cue at its end - the last cue is handed over as completely as any other
		if n := len(s.Items); n > 0 && (w.name == "srt" || w.name == "webvtt" || w.name == "ssa") {
			s2 := *s
			end := s.Items[n-1].EndAt
			for _, it := range s.Items {
				if it.EndAt > end {
					end = it.EndAt
				}
			}
			s2.Items = append(append([]*astisub.Item(nil), s.Items...), textItem(end+time.Second, end+2*time.Second, "one more"))
			if ref2, err2, p2 := writeBytes(w, &s2); p2 == "" && err2 == nil {
				c.Count("append_a_cue_prefix_checks", 1)
				if !bytes.HasPrefix(ref2, ref) {
					k := 0
					for k < len(ref) && k < len(ref2) && ref[k] == ref2[k] {
						k++
					}
					o := fw.Bad(key, nil, "%s writer: the document of the list (%d bytes) is not the beginning of the document of the same list with one more cue: they part at byte %d (%q vs %q): the last cue was not handed over completely (list seed %d)", w.name, len(ref), k, trunc(string(ref[k:]), 40), trunc(string(ref2[k:]), 40), seed)
					return &o
				}
			}
		}
		// without a fault the sink must have received exactly the document
		sink := &faultWriter{k: 1 << 30}
		var err error
		if p := guard(func() { err = w.write(*s, sink) }); p != "" || err != nil || !bytes.Equal(sink.buf.Bytes(), ref) {
			o := fw.Bad(key, nil, "%s writer: without any fault the destination received %d bytes, the document has %d (err=%v)", w.name, sink.buf.Len(), len(ref), err)
			return &o
		}
		n := len(ref)
		var offsets []int
		if n <= 3000 {
			for k := 0; k < n; k++ {
				offsets = append(offsets, k)
			}
		} else {
			for k := 0; k < 200; k++ {
				offsets = append(offsets, k, n-1-k)
			}
			for i := 0; i < 600; i++ {
				offsets = append(offsets, c.R.Intn(n))
			}
		}
		for _, k := range offsets {
			for mode := 0; mode < 3; mode++ {
				partial := mode == 1
				fwr := &faultWriter{k: k, partial: partial, full: mode == 2}
				p := guard(func() { err = w.write(*s, fwr) })
				c.Count("write_faults_injected", 1)
				if p != "" {
					o := fw.Bad(key, nil, "%s writer panicked when the destination failed at offset %d: %s", w.name, k, p)
					return &o
				}
				if err == nil {
					o := fw.Bad(key, nil, "%s writer: the destination failed at offset %d of %d (%s) after %d writes, but the writer returned a nil error (list seed %d)", w.name, k, n, []string{"whole chunk refused", "partial write", "whole chunk reported written together with the error"}[mode], fwr.writes, seed)
					return &o
				}
			}
		}
	}
	return nil
}

// c18LongLines: a line longer than what the reader can buffer gives an error or a complete parse
func c18LongLines(c *fw.Ctx) *fw.Outcome {
	for _, l := range []int{1<<16 - 100, 1<<16 - 1, 1 << 16, 1<<16 + 1, 1 << 17, 1 << 20} {
		long := strings.Repeat("x", l)
		docs := map[string][]byte{
			"srt":    []byte("1\n00:00:01,000 --> 00:00:02,000\nfirst\n\n2\n00:00:03,000 --> 00:00:04,000\n" + long + "\n\n3\n00:00:05,000 --> 00:00:06,000\nlast\n"),
			"webvtt": []byte("WEBVTT\n\n1\n00:00:01.000 --> 00:00:02.000\nfirst\n\n2\n00:00:03.000 --> 00:00:04.000\n" + long + "\n\n3\n00:00:05.000 --> 00:00:06.000\nlast\n"),
			"ssa":    []byte("[Script Info]\nTitle: t\n\n[Events]\nFormat: Start, End, Text\nDialogue: 0:00:01.00,0:00:02.00,first\nDialogue: 0:00:03.00,0:00:04.00," + long + "\nDialogue: 0:00:05.00,0:00:06.00,last\n"),
		}
		// the same SSA script with an embedded-files section in front of the events, and the WebVTT document with a
		// STYLE block and a NOTE in front of the cues: what stands before does not excuse what comes after
		docs["ssa+fonts"] = bytes.Replace(docs["ssa"], []byte("[Events]"), []byte("[Fonts]\nfontname: a.ttf\nM5Q)=!1A\n\n[Graphics]\nfilename: b.bmp\n\n[Events]"), 1)
		docs["webvtt+style"] = bytes.Replace(docs["webvtt"], []byte("WEBVTT\n\n"), []byte("WEBVTT\n\nSTYLE\n::cue { color: red }\n\nNOTE a comment\n\n"), 1)
		for _, f := range []string{"srt", "webvtt", "ssa", "ssa+fonts", "webvtt+style"} {
			var sub *astisub.Subtitles
			var err error
			p := guard(func() {
				sub, err = corpusReader(strings.SplitN(f, "+", 2)[0], astisub.TeletextOptions{})(bytes.NewReader(docs[f]))
			})
			c.Count("long_line_documents", 1)
			if p != "" {
				o := fw.Bad(uint64(l), nil, "%s reader panicked on a line of %d bytes: %s", f, l, p)
				return &o
			}
			if err == nil {
				ok := len(sub.Items) == 3 && itemText(sub.Items[1]) == long && itemText(sub.Items[2]) == "last"
				if !ok {
					o := fw.Bad(uint64(l), nil, "%s reader: a line of %d bytes gives %d cues and a nil error instead of an error or the complete parse (3 cues)", f, l, len(sub.Items))
					return &o
				}
				c.Count("long_line_parsed_completely", 1)
			} else {
				c.Count("long_line_rejected_with_error", 1)
			}
		}
	}
	return nil
}

// c18Files: the file-level helpers and the CLI
func c18Files(c *fw.Ctx) *fw.Outcome {
	dir := c.TmpDir()
	good := filepath.Join(dir, "in.srt")
	os.WriteFile(good, []byte("1\n00:00:01,000 --> 00:00:02,000\nhello\n"), 0o644)
	bad := func(format string, a ...interface{}) *fw.Outcome {
		o := fw.Bad(0xf11e, nil, format, a...)
		return &o
	}
	// missing input
	if _, err := astisub.OpenFile(filepath.Join(dir, "missing.srt")); err == nil {
		return bad("OpenFile on a missing file returned a nil error")
	}
	sub, err := astisub.OpenFile(good)
	if err != nil || len(sub.Items) != 1 {
		return bad("OpenFile on a good file failed: %v", err)
	}
	// output in a missing directory
	if err := sub.Write(filepath.Join(dir, "nodir", "out.srt")); err == nil {
		return bad("Write into a missing directory returned a nil error")
	}
	// the output path is an existing directory
	for _, ext := range []string{".srt", ".ssa", ".stl", ".ttml", ".vtt"} {
		dpath := filepath.Join(dir, "outdir"+ext)
		os.Mkdir(dpath, 0o755)
		if err := sub.Write(dpath); err == nil {
			return bad("Write onto an existing directory (outdir%s) returned a nil error", ext)
		}
		if haveCLI() {
			if out, err := cli("convert", "-i", good, "-o", dpath); err == nil {
				return bad("CLI convert onto an existing directory exited 0: %s", out)
			}
		}
		if fi, err := os.Stat(dpath); err != nil || !fi.IsDir() {
			return bad("Write onto an existing directory replaced or removed it")
		}
		c.Count("write_onto_directory", 1)
	}
	// invalid extension / nothing to write
	if err := sub.Write(filepath.Join(dir, "out.xyz")); err != astisub.ErrInvalidExtension {
		return bad("Write with an unsupported extension returned %v", err)
	}
	if _, err := astisub.OpenFile(filepath.Join(dir, "in.xyz")); err == nil {
		return bad("OpenFile with an unsupported extension returned a nil error")
	}
	for _, ext := range []string{".srt", ".ssa", ".ass", ".stl", ".ttml", ".vtt", ".ts"} {
		// the input path is a directory: opening works, reading fails (EISDIR)
		dpath := filepath.Join(dir, "dir"+ext)
		os.Mkdir(dpath, 0o755)
		var s2 *astisub.Subtitles
		p := guard(func() { s2, err = astisub.OpenFile(dpath) })
		c.Count("eisdir_reads", 1)
		if p != "" {
			return bad("OpenFile(%s) on a directory panicked: %s", ext, p)
		}
		if err == nil {
			n := 0
			if s2 != nil {
				n = len(s2.Items)
			}
			return bad("OpenFile on a directory named dir%s returned %d cues and a nil error (the read fails with EISDIR)", ext, n)
		}
		if ext == ".ts" {
			continue
		}
		// the destination is full (ENOSPC): a symlink to /dev/full
		full := filepath.Join(dir, "full"+ext)
		os.Remove(full)
		if os.Symlink("/dev/full", full) == nil {
			p := guard(func() { err = sub.Write(full) })
			c.Count("enospc_writes", 1)
			if p != "" {
				return bad("Write(%s) to a full device panicked: %s", ext, p)
			}
			if err == nil {
				return bad("Write to a full device (ENOSPC) through full%s returned a nil error", ext)
			}
			if !errors.Is(err, syscall.ENOSPC) {
				c.Count("enospc_error_not_unwrappable", 1)
			}
			if haveCLI() {
				if out, err := cli("convert", "-i", good, "-o", full); err == nil {
					return bad("CLI convert to a full device exited 0: %s", out)
				}
				c.Count("cli_enospc_runs", 1)
			}
		}
	}
	if haveCLI() {
		if out, err := cli("convert", "-i", filepath.Join(dir, "missing.srt"), "-o", filepath.Join(dir, "o.srt")); err == nil {
			return bad("CLI convert of a missing input exited 0: %s", out)
		}
		if out, err := cli("convert", "-i", good, "-o", filepath.Join(dir, "nodir", "o.srt")); err == nil {
			return bad("CLI convert into a missing directory exited 0: %s", out)
		}
		if out, err := cli("convert", "-i", good, "-o", filepath.Join(dir, "o.xyz")); err == nil {
			return bad("CLI convert to an unsupported extension exited 0: %s", out)
		}
		c.Count("cli_error_runs", 3)
	}
	// resources: whatever the outcome, the file-level helpers give back what they took. File descriptors of this
	// process, goroutines, and the files of a directory of its own are counted around 300 calls of every kind.
	rdir := filepath.Join(dir, "resources")
	os.Mkdir(rdir, 0o755)
	os.Mkdir(filepath.Join(rdir, "d.srt"), 0o755)
	os.WriteFile(filepath.Join(rdir, "good.vtt"), []byte("WEBVTT\n\n00:01.000 --> 00:02.000\nhello\n"), 0o644)
	os.WriteFile(filepath.Join(rdir, "bad.ttml"), []byte("<tt><body><div><p begin=\"x\">"), 0o644)
	os.WriteFile(filepath.Join(rdir, "bad.stl"), []byte("short"), 0o644)
	os.WriteFile(filepath.Join(rdir, "bad.ts"), bytes.Repeat([]byte{0x47, 0x1f, 0xff, 0x10}, 200), 0o644)
	fds := func() int {
		es, _ := os.ReadDir("/proc/self/fd")
		return len(es)
	}
	names := func() string {
		es, _ := os.ReadDir(rdir)
		var l []string
		for _, e := range es {
			l = append(l, e.Name())
		}
		return strings.Join(l, " ")
	}
	calls := func() {
		g, _ := astisub.OpenFile(filepath.Join(rdir, "good.vtt"))
		for _, n := range []string{"bad.ttml", "bad.stl", "bad.ts", "missing.ssa", "d.srt", "good.xyz"} {
			astisub.OpenFile(filepath.Join(rdir, n))
			astisub.Open(astisub.Options{Filename: filepath.Join(rdir, n), Teletext: astisub.TeletextOptions{Page: 888}})
		}
		if g != nil {
			for _, ext := range []string{"srt", "ssa", "stl", "ttml", "vtt"} {
				g.Write(filepath.Join(rdir, "out."+ext))
			}
			g.Write(filepath.Join(rdir, "d.srt"))                          // a directory
			g.Write(filepath.Join(rdir, "nodir", "o.srt"))                 // a missing directory
			g.Write(filepath.Join(rdir, "out.xyz"))                        // no codec
			astisub.NewSubtitles().Write(filepath.Join(rdir, "empty.srt")) // nothing to write
		}
	}
	guard(calls) // warm-up: the runtime opens its poller on the first file operation
	fd0, g0, n0 := fds(), runtime.NumGoroutine(), names()
	for i := 0; i < 50; i++ {
		if p := guard(calls); p != "" {
			return bad("file-level helpers panicked: %s", p)
		}
	}
	runtime.Gosched()
	if fd1 := fds(); fd1 > fd0 {
		return bad("file descriptors are left open by the file-level helpers: %d open before 50 rounds of OpenFile/Open/Write on good, malformed, missing and unwritable paths, %d after", fd0, fd1)
	}
	if g1 := runtime.NumGoroutine(); g1 > g0 {
		return bad("goroutines are left behind by the file-level helpers: %d before, %d after", g0, g1)
	}
	if n1 := names(); n1 != n0 {
		return bad("files are left behind by the file-level helpers: the directory held {%s} after the first round and holds {%s} after 50 more", n0, n1)
	}
	for _, stray := range strings.Fields(names()) {
		switch stray {
		case "d.srt", "good.vtt", "bad.ttml", "bad.stl", "bad.ts", "out.srt", "out.ssa", "out.stl", "out.ttml", "out.vtt":
		case "empty.srt", "out.xyz":
			// (a file created before the writer found nothing to write or no codec: the properties do not say what
			// becomes of it, it is left as the library leaves it)
		default:
			return bad("an unexpected file %q is left in the directory by the file-level helpers", stray)
		}
	}
	c.Count("resource_rounds", 50)
	c.Count("file_descriptors_open_at_the_end", int64(fds()))
	return nil
}

// c18Strace: the kernel refuses a write of the CLI (thorough tier): whenever strace injected ENOSPC into a write on the
// output file, the exit status must be non-zero
func c18Strace(c *fw.Ctx) *fw.Outcome {
	if !haveCLI() {
		return nil
	}
	if _, err := exec.LookPath("strace"); err != nil {
		c.Count("strace_unavailable", 1)
		return nil
	}
	dir := c.TmpDir()
	in := filepath.Join(dir, "s_in.srt")
	os.WriteFile(in, []byte(simpleSRT([]tcue{{1e9, 2e9, "a"}, {3e9, 4e9, "b"}})), 0o644)
	for _, ext := range []string{".srt", ".ssa", ".stl", ".ttml", ".vtt"} {
		for n := 1; n <= 4; n++ {
			out := filepath.Join(dir, "s_out"+ext)
			trace := filepath.Join(dir, "trace.txt")
			os.Remove(out)
			cmd := exec.Command("strace", "-f", "-o", trace, "-e", "trace=write,openat", "-e", fmt.Sprintf("inject=write:error=ENOSPC:when=%d", n), os.Getenv("VERIF_CLI"), "convert", "-i", in, "-o", out)
			err := cmd.Run()
			tb, _ := os.ReadFile(trace)
			// find the fd of the output file and whether a write on it was injected
			fd := ""
			injected := false
			for _, l := range strings.Split(string(tb), "\n") {
				if strings.Contains(l, "openat(") && strings.Contains(l, "s_out"+ext) {
					if i := strings.LastIndex(l, "= "); i >= 0 {
						fd = strings.TrimSpace(l[i+2:])
					}
				}
				if fd != "" && strings.Contains(l, "write("+fd+",") && strings.Contains(l, "INJECTED") {
					injected = true
				}
			}
			c.Count("strace_runs", 1)
			if injected {
				c.Count("strace_output_write_faults", 1)
				if err == nil {
					o := fw.Bad(0x57, nil, "CLI convert to %s: the kernel refused a write on the output file (ENOSPC injected, when=%d) but the CLI exited 0", ext, n)
					return &o
				}
			}
		}
	}
	return nil
}

// c18Complete: without any fault a successful write is the complete document, however long the list: every writer
// on lists of 1, 255, 256 and 65 537 cues, the STL writer also on 100 001 cues (more than its five-digit counters
// and two-byte subtitle numbers hold), counted by a sink that keeps only what it needs
func c18Complete(c *fw.Ctx) *fw.Outcome {
	// a text run longer than any line buffer (a cue that holds a whole paragraph, a base64 blob pasted by mistake): the
	// text writers hand it over whole or return an error
	for _, n := range []int{1<<16 - 1, 1 << 16, 70000, 1 << 20} {
		long := strings.Repeat("x", n-3) + "END"
		s := astisub.NewSubtitles()
		s.Items = append(s.Items, textItem(time.Second, 2*time.Second, "first"), textItem(3*time.Second, 4*time.Second, long), textItem(5*time.Second, 6*time.Second, "last"))
		for _, w := range allWriters {
			if w.name == "stl" {
				continue
			}
			var b bytes.Buffer
			var err error
			if p := guard(func() { err = w.write(*s, &b) }); p != "" {
				o := fw.Bad(uint64(n), nil, "%s writer panicked on a text run of %d bytes: %s", w.name, n, p)
				return &o
			}
			if err == nil && (!bytes.Contains(b.Bytes(), []byte(long)) || !bytes.Contains(b.Bytes(), []byte("last"))) {
				o := fw.Bad(uint64(n), nil, "%s writer returned a nil error on a list holding a text run of %d bytes, but the document handed over (%d bytes) does not hold that run whole (or not the cue after it)", w.name, n, b.Len())
				return &o
			}
			c.Count("long_runs_written", 1)
		}
	}
	for _, n := range []int{1, 255, 256, 65537, 100001} {
		s := astisub.NewSubtitles()
		cd := fixedNow
		s.Metadata = &astisub.Metadata{Framerate: 25, STLDisplayStandardCode: "0", STLCreationDate: &cd, STLRevisionDate: &cd}
		for i := 0; i < n; i++ {
			s.Items = append(s.Items, textItem(time.Duration(i)*time.Second/4, time.Duration(i)*time.Second/4+200*time.Millisecond, fmt.Sprintf("cue number %d", i)))
		}
		for _, w := range allWriters {
			if n > 65537 && w.name != "stl" {
				continue
			}
			var b bytes.Buffer
			var err error
			if p := guard(func() { err = w.write(*s, &b) }); p != "" || err != nil {
				o := fw.Bad(uint64(n), nil, "%s writer failed on a list of %d cues without any fault: %v %s", w.name, n, err, p)
				return &o
			}
			// every cue's text is in the document, the last one included
			have := bytes.Count(b.Bytes(), []byte("cue number "))
			if w.name == "stl" {
				have = (b.Len() - 1024) / 128
				if (b.Len()-1024)%128 != 0 {
					have = -1
				}
			}
			if have != n || !bytes.Contains(b.Bytes(), []byte(fmt.Sprintf("cue number %d", n-1))) {
				o := fw.Bad(uint64(n), nil, "%s writer returned a nil error on a list of %d cues, but the destination received a document holding %d of them (%d bytes): without a fault a successful return means the complete document", w.name, n, have, b.Len())
				return &o
			}
			c.Count("complete_documents_checked", 1)
			// and the way back through the file-level helpers: a document of several megabytes is read whole
			if n == 65537 || w.name == "stl" {
				ext := map[string]string{"srt": "srt", "ssa": "ass", "stl": "stl", "ttml": "ttml", "webvtt": "vtt"}[w.name]
				path := filepath.Join(c.TmpDir(), "big."+ext)
				os.WriteFile(path, b.Bytes(), 0o644)
				var back *astisub.Subtitles
				p := guard(func() { back, err = astisub.OpenFile(path) })
				os.Remove(path)
				if p != "" || err != nil || back == nil || len(back.Items) != n {
					got := -1
					if back != nil {
						got = len(back.Items)
					}
					o := fw.Bad(uint64(n)+7, nil, "OpenFile on a %s document of %d cues (%d bytes) returns %d cues (err=%v %s): a long document is not read whole", w.name, n, b.Len(), got, err, p)
					return &o
				}
				c.Count("long_documents_read_back", 1)
			}
		}
	}
	return nil
}

func c18Run(c *fw.Ctx) fw.Outcome {
	nDocs := tierN(c.Tier, 18, 360)
	switch {
	case c.Idx < nDocs:
		format := corpusFormats[int(c.Idx)%len(corpusFormats)]
		d := genDoc(c.R, format, false)
		if c.Idx >= nDocs-6 {
			d = bigDoc(c.R, format)
		} else if (format == "srt" || format == "webvtt" || format == "ssa") && (c.Idx/6)%2 == 1 {
			// two files joined by a DOS tool: an end-of-file mark (Ctrl-Z) on a line of its own in the middle; the
			// document goes on behind it, and so do the faults that have to be reported
			if i := bytes.IndexByte(d.Data[len(d.Data)/3:], '\n'); i >= 0 {
				at := len(d.Data)/3 + i + 1
				d.Data = append(append(append([]byte(nil), d.Data[:at]...), "\x1a\n"...), d.Data[at:]...)
				d.Origin += ", Ctrl-Z in the middle"
				c.Count("documents_with_a_dos_eof_mark", 1)
			}
		}
		if o := c18ReadFaults(c, d, 300); o != nil {
			return *o
		}
		c.Feature("read faults " + format)
		return fw.OK(fw.HashBytes(d.Data), map[string]interface{}{"kind": "read faults at every offset", "format": format, "bytes": len(d.Data)})
	case c.Idx < 2*nDocs:
		seed := c.R.U64()
		if o := c18WriteFaults(c, seed); o != nil {
			return *o
		}
		c.Feature("write faults")
		return fw.OK(seed, map[string]interface{}{"kind": "write faults at every output offset, 5 writers", "list_seed": seed})
	case c.Idx == 2*nDocs:
		if o := c18LongLines(c); o != nil {
			return *o
		}
		c.Feature("long lines")
		return fw.OK(0x1001, "lines of 2^16-100 .. 2^20 bytes in srt, webvtt, ssa")
	case c.Idx == 2*nDocs+3:
		if o := c18Complete(c); o != nil {
			return *o
		}
		c.Feature("completeness without faults")
		return fw.OK(0x1004, "lists of 1..100001 cues: the destination receives every cue")
	case c.Idx == 2*nDocs+1:
		if o := c18Files(c); o != nil {
			return *o
		}
		c.Feature("file helpers and CLI")
		return fw.OK(0x1002, "missing input, missing directory, EISDIR, /dev/full through Subtitles.Write and the CLI")
	default:
		if !c.Thorough() {
			return fw.Skip()
		}
		if o := c18Strace(c); o != nil {
			return *o
		}
		c.Feature("strace ENOSPC injection")
		return fw.OK(0x1003, "strace -e inject=write:error=ENOSPC on the CLI")
	}
}

func init() {
	fw.Register(&fw.Property{
		ID:          "C18",
		Level:       "fault_enumeration",
		Rule:        "read faults: for documents of every format (generated by the C01-C06 generators; the last 6 are ~200 KiB) and every offset k in 0..len (every offset when the document has at most 300 bytes, else offsets 0..64, the last 64 and 300 random ones; for TTML up to the end of the root element) the harness reader delivers k bytes and then fails with a non-EOF error (one of eight values, two of which wrap io.EOF without being it), once as (0, err) and once as (m>0, err) together with the last chunk; the reader must return a non-nil error (a reader that stopped reading before the fault is counted separately). write faults: for random rich cue lists and each of the 5 writers, the destination fails at every output offset (all offsets up to 3000 bytes, else 400 edge + 600 random), refusing the chunk or accepting a partial write; the writer must return a non-nil error; without a fault the sink must have received exactly the document, the document must hold a timing line / event / paragraph / TTI block for every cue of the list, and for the line-oriented writers (srt, webvtt, ssa) it must be the beginning of the document of the same list with one more cue appended (every second list ends in white space of some kind). Plus, without any fault, text runs of 2^16-1 .. 2^20 bytes through the four text writers (the run arrives whole or the writer returns an error) and lists of 1, 255, 256, 65 537 cues through every writer and 100 001 cues through the STL writer: the destination must hold every cue. Plus lines of 2^16-100..2^20 bytes in srt/webvtt/ssa (error or complete parse), the file helpers (missing input, missing directory, EISDIR for every extension, ENOSPC via a symlink to /dev/full through Subtitles.Write and the CLI) and, in the thorough tier, strace ENOSPC injection on the CLI's output writes. distinct_nontrivial = distinct documents/lists; events count the faults injected.",
		Assumptions: []string{"a fault is an error other than io.EOF", "for TTML only faults before the end of the root element must be reported"},
		Cases:       func(tier string) int64 { return 2*tierN(tier, 18, 360) + 4 },
		Anchors:     []string{"ReadFromSRT", "ReadFromWebVTT", "ReadFromSSAWithOptions", "readNBytes", "ReadFromTTML", "ReadFromTeletext", "WriteToSRT", "WriteToWebVTT", "WriteToSSA", "WriteToSTL", "WriteToTTML", "Open", "Subtitles.Write"},
		Run:         c18Run,
	})
}
