package props

// Frozen character tables for the C06 oracle. Produced once from teletext.go at the pinned commit d8ad60d by a
// throw-away script (not part of any check), reviewed by hand against ETS 300 706 table 36 as far as known offline
// (the library renders the arrows of the English/Italian subsets as guillemets and ^, the dash as -, the double bar
// as a broken bar), then frozen: a later edit of the library's tables shows up as a disagreement with this copy.

// teletextG0 is the Latin G0 set, codes 0x20..0x7f, with the default (English) national option characters
var teletextG0 = [96]string{
	"\u0020", "\u0021", "\u0022", "\u00a3", "\u0024", "\u0025", "\u0026", "\u0027",
	"\u0028", "\u0029", "\u002a", "\u002b", "\u002c", "\u002d", "\u002e", "\u002f",
	"\u0030", "\u0031", "\u0032", "\u0033", "\u0034", "\u0035", "\u0036", "\u0037",
	"\u0038", "\u0039", "\u003a", "\u003b", "\u003c", "\u003d", "\u003e", "\u003f",
	"\u0040", "\u0041", "\u0042", "\u0043", "\u0044", "\u0045", "\u0046", "\u0047",
	"\u0048", "\u0049", "\u004a", "\u004b", "\u004c", "\u004d", "\u004e", "\u004f",
	"\u0050", "\u0051", "\u0052", "\u0053", "\u0054", "\u0055", "\u0056", "\u0057",
	"\u0058", "\u0059", "\u005a", "\u00ab", "\u00bd", "\u00bb", "\u005e", "\u0023",
	"\u002d", "\u0061", "\u0062", "\u0063", "\u0064", "\u0065", "\u0066", "\u0067",
	"\u0068", "\u0069", "\u006a", "\u006b", "\u006c", "\u006d", "\u006e", "\u006f",
	"\u0070", "\u0071", "\u0072", "\u0073", "\u0074", "\u0075", "\u0076", "\u0077",
	"\u0078", "\u0079", "\u007a", "\u00bc", "\u00a6", "\u00be", "\u00f7", "\u007f",
}

// positions (code - 0x20) of the 13 national option characters
var teletextNationalPositions = [13]int{0x03, 0x04, 0x20, 0x3b, 0x3c, 0x3d, 0x3e, 0x3f, 0x40, 0x5b, 0x5c, 0x5d, 0x5e}

// teletextNational[c] = the 13 characters selected by the control bits C12-C14 read as c = C12 + 2*C13 + 4*C14
// (0 English, 1 French, 2 Swedish/Finnish/Hungarian, 3 Czech/Slovak, 4 German, 5 Portuguese/Spanish, 6 Italian; 7 has none)
var teletextNational = [8][]string{
	{"\u00a3", "\u0024", "\u0040", "\u00ab", "\u00bd", "\u00bb", "\u005e", "\u0023", "\u002d", "\u00bc", "\u00a6", "\u00be", "\u00f7"}, // English: £ $ @ « ½ » ^ # - ¼ ¦ ¾ ÷
	{"\u00e9", "\u00ef", "\u00e0", "\u00eb", "\u00ea", "\u00f9", "\u00ee", "\u0023", "\u00e8", "\u00e2", "\u00f4", "\u00fb", "\u00e7"}, // French: é ï à ë ê ù î # è â ô û ç
	{"\u0023", "\u00a4", "\u00c9", "\u00c4", "\u00d6", "\u00c5", "\u00dc", "\u005f", "\u00e9", "\u00e4", "\u00f6", "\u00e5", "\u00fc"}, // SwedishFinnishHungarian: # ¤ É Ä Ö Å Ü _ é ä ö å ü
	{"\u0023", "\u016f", "\u010d", "\u0165", "\u017e", "\u00fd", "\u00ed", "\u0159", "\u00e9", "\u00e1", "\u011b", "\u00fa", "\u0161"}, // CzechSlovak: # ů č ť ž ý í ř é á ě ú š
	{"\u0023", "\u0024", "\u00a7", "\u00c4", "\u00d6", "\u00dc", "\u005e", "\u005f", "\u00b0", "\u00e4", "\u00f6", "\u00fc", "\u00df"}, // German: # $ § Ä Ö Ü ^ _ ° ä ö ü ß
	{"\u00e7", "\u0024", "\u00a1", "\u00e1", "\u00e9", "\u00ed", "\u00f3", "\u00fa", "\u00bf", "\u00fc", "\u00f1", "\u00e8", "\u00e0"}, // PortugueseSpanish: ç $ ¡ á é í ó ú ¿ ü ñ è à
	{"\u00a3", "\u0024", "\u00e9", "\u00b0", "\u00e7", "\u00bb", "\u005e", "\u0023", "\u00f9", "\u00e0", "\u00f2", "\u00e8", "\u00ec"}, // Italian: £ $ é ° ç » ^ # ù à ò è ì
	nil,
}
