package props

import (
	"strings"
	"unicode"

	"verif/harness/fw"
)

// Hostile text generation shared by the codec monitors.

var textWords = []string{
	"hello", "World", "a", "I", "ça", "naïve", "Ünï", "日本語", "中文", "한국어", "العربية", "עברית", "emoji😀", "𝔘𝔫𝔦", "é", "ọ̈",
	"\ufeffzw", "z\u200bw", "l\u2028s", "n\u0085l", "İi", "ǅ", "ﬁ",
	"3", "42", "1.5", "x=y", "100%", "#tag", "@me", "it's", "\"q\"", "(p)", "[b]", "-", "–", "…", "!?", "a/b", "c\\d", "NARRATOR:", "a::b", "10:30", "~", "^", "_u_", "`", "|",
}

type textOpts struct {
	amp, lt, gt, nbsp, braces, comma, ampEntity bool
	bsN                                         bool // backslash sequences that mean something in SSA only
	ansi                                        bool // words in a one-byte code page (not valid UTF-8), as in scripts saved as ANSI
	maxWords                                    int
}

// genText returns 1..maxWords words joined by single spaces (optionally tabs / NBSP inside), never starting or ending
// with white space, never containing a line terminator or "-->".
func genText(r *fw.Rand, o textOpts) string {
	n := r.Range(1, max(1, o.maxWords))
	if r.P(1, 300) {
		n = r.Range(900, 1800) // a very long line (4.5 to 9 kB): longer than any fixed-size buffer on the way
	}
	var parts []string
	for i := 0; i < n; i++ {
		w := fw.Pick(r, textWords)
		switch r.Intn(14) {
		case 0:
			if o.amp {
				w = fw.Pick(r, []string{"&", "R&D", "a&b", "&x", "&&"})
			}
		case 1:
			if o.lt {
				w = fw.Pick(r, []string{"<", "a<", "<3", "1<2", "< x", "<<"})
			}
		case 2:
			if o.gt {
				w = fw.Pick(r, []string{">", "a>b", "->", ">>", "=>"})
			}
		case 3:
			if o.ampEntity {
				w = fw.Pick(r, []string{"&amp;", "&lt;", "&nbsp;", "&gt;", "&#65;", "&quot;"})
			}
		case 4:
			if o.braces {
				w = fw.Pick(r, []string{"{", "}", "{x}", "a{b"})
			}
		case 5:
			if o.comma {
				w = fw.Pick(r, []string{"a,b", ",", "1,5", "x, y"})
			}
		case 8:
			if o.ansi {
				w = fw.Pick(r, []string{"Caf\xe9", "cr\xe8me", "\xa1Hola!", "na\xefve"})
			}
		case 7:
			if o.bsN {
				w = fw.Pick(r, []string{`C:\Nightly`, `\N`, `a\nb`, `\\server\News`, `\h`})
			}
		case 6:
			if o.lt {
				w = fw.Pick(r, []string{"<b>", "</i>", "<x y>", "a<b", "<!--", "<?p", "</", "<font>", "<00:05.000>", "<00:00:05.000>", "<v Bob>"})
			}
		}
		parts = append(parts, w)
	}
	sep := " "
	var b strings.Builder
	for i, p := range parts {
		if i > 0 {
			switch {
			case o.nbsp && r.P(1, 8):
				sep = " "
			case r.P(1, 20):
				sep = "\t"
			case r.P(1, 20):
				sep = "  "
			default:
				sep = " "
			}
			b.WriteString(sep)
		}
		b.WriteString(p)
	}
	s := b.String()
	s = strings.ReplaceAll(s, "-->", "->")
	return s
}

func max(a, b int) int {
	if a > b {
		return a
	}
	return b
}

func trimmedEq(s string) bool { return strings.TrimFunc(s, unicode.IsSpace) == s }

// splitRuns cuts a text into k non-blank pieces whose concatenation is the text (pieces may start/end with spaces
// but are never white-space only)
func splitRuns(r *fw.Rand, s string, k int) []string {
	rs := []rune(s)
	if k <= 1 || len(rs) < 2 {
		return []string{s}
	}
	var cuts []int
	for i := 0; i < k-1; i++ {
		cuts = append(cuts, 1+r.Intn(len(rs)-1))
	}
	cuts = append(cuts, 0, len(rs))
	sortInts(cuts)
	var out []string
	for i := 1; i < len(cuts); i++ {
		if cuts[i] > cuts[i-1] {
			out = append(out, string(rs[cuts[i-1]:cuts[i]]))
		}
	}
	// merge white-space-only pieces into a neighbour
	var res []string
	for _, p := range out {
		if strings.TrimFunc(p, unicode.IsSpace) == "" && len(res) > 0 {
			res[len(res)-1] += p
		} else if len(res) > 0 && strings.TrimFunc(res[len(res)-1], unicode.IsSpace) == "" {
			res[len(res)-1] += p
		} else {
			res = append(res, p)
		}
	}
	return res
}

func sortInts(a []int) {
	for i := 1; i < len(a); i++ {
		for j := i; j > 0 && a[j] < a[j-1]; j-- {
			a[j], a[j-1] = a[j-1], a[j]
		}
	}
}

// genTimeMs returns an instant in [0,100h) at 1 ms, biased to carries
func genTimeMs(r *fw.Rand, maxH int64) int64 {
	switch r.Intn(8) {
	case 0:
		h := fw.Pick(r, []int64{0, 1, 9, 10, 23, 24, 99})
		if h >= maxH {
			h = maxH - 1
		}
		return h*3600000 + fw.Pick(r, []int64{0, 59*60000 + 59999, 59999, 999, 1000, 60000, 3599999})
	case 1:
		return r.I64n(1000)
	case 2:
		return r.I64n(60000)
	default:
		return r.I64n(maxH * 3600000)
	}
}
