package props

import (
	"fmt"
	"math/big"
	"sort"
	"sync"
	"time"

	astisub "github.com/asticode/go-astisub"
	"verif/harness/fw"
)

// ---------------------------------------------------------------------------------------------------------------
// C14 ForceDuration

const ms = int64(time.Millisecond)

// c14Spec is the statement, literally
func c14Spec(cs []tcue, d int64, filler bool) (out []tcue, addedFiller bool) {
	dur := int64(0)
	if len(cs) > 0 {
		dur = cs[len(cs)-1].E
	}
	if dur == d {
		return append([]tcue(nil), cs...), false
	}
	for _, c := range cs {
		if c.S >= d {
			continue
		}
		if c.E > d {
			c.E = d
		}
		out = append(out, c)
	}
	if filler && (len(out) == 0 || out[len(out)-1].E < d) {
		out = append(out, tcue{d - ms, d, "<filler>"})
		addedFiller = true
	}
	return
}

func c14Check(cs []tcue, d int64, filler bool) string { return c14Check2(cs, d, filler, 0) }

func c14Check2(cs []tcue, d int64, filler bool, d2 int64) string {
	sub := astisub.NewSubtitles()
	snaps := make([]string, len(cs))
	for k, c := range cs {
		it := decorate(textItem(time.Duration(c.S), time.Duration(c.E), c.T), k)
		if (len(cs)+int(d/ms))%6 == 5 {
			it.Lines = nil // a list of cues that only clear the screen (no line at all): cues all the same
		}
		if k%2 == 0 {
			it.InlineStyle = &astisub.StyleAttributes{WebVTTAlign: "left"}
		}
		sub.Items = append(sub.Items, it)
		snaps[k] = snapItem(it)
	}
	ptrs := append([]*astisub.Item(nil), sub.Items...)
	someMetadata(sub, len(cs)+int(d%7))
	if (len(cs)+int(d&3))%4 == 1 {
		if p := guard(func() { prewarm(sub) }); p != "" {
			return p
		}
	}
	// another list of this process got a filler earlier, and its owner has since edited that cue in place
	pristine := ""
	if filler {
		other := astisub.NewSubtitles()
		if p := guard(func() { other.ForceDuration(5*time.Millisecond, true) }); p != "" {
			return p
		}
		if len(other.Items) == 1 && len(other.Items[0].Lines) > 0 && len(other.Items[0].Lines[0].Items) > 0 {
			f := other.Items[0]
			pristine = itemText(f)
			f.Lines[0].Items[0].Text = "edited by its owner"
			f.Lines[0].Items[0].InlineStyle = &astisub.StyleAttributes{SRTBold: true}
			f.Lines[0].VoiceName = "owner"
		}
	}
	if p := guard(func() { sub.ForceDuration(time.Duration(d), filler) }); p != "" {
		return p
	}
	exp, added := c14Spec(cs, d, filler)
	got := cuesOf(sub.Items)
	desc := fmt.Sprintf("ForceDuration(%d, filler=%v) on %s", d, filler, fmtCues(cs))
	if len(got) != len(exp) {
		return fmt.Sprintf("%s: got %s, specification %s", desc, fmtCues(got), fmtCues(exp))
	}
	n := len(exp)
	if added {
		n--
		f := sub.Items[n]
		if int64(f.StartAt) != d-ms || int64(f.EndAt) != d {
			return fmt.Sprintf("%s: filler is [%d,%d), expected [%d,%d)", desc, f.StartAt, f.EndAt, d-ms, d)
		}
		if len(itemText(f)) == 0 {
			return fmt.Sprintf("%s: filler cue has no placeholder text", desc)
		}
		if pristine != "" && (itemText(f) != pristine || f.Lines[0].VoiceName != "" || f.Lines[0].Items[0].InlineStyle != nil) {
			return fmt.Sprintf("%s: the filler cue reads %q (voice %q), the filler of an earlier, unrelated list read %q before its owner edited it in place: fillers share their content", desc, itemText(f), f.Lines[0].VoiceName, pristine)
		}
	}
	for k := 0; k < n; k++ {
		it := sub.Items[k]
		if it != ptrs[k] || int64(it.StartAt) != exp[k].S || int64(it.EndAt) != exp[k].E {
			return fmt.Sprintf("%s: got %s, specification %s", desc, fmtCues(got), fmtCues(exp))
		}
		if snapItem(it) != snaps[k] {
			return fmt.Sprintf("%s: content of cue %d changed", desc, k)
		}
	}
	if filler && int64(sub.Duration()) != d {
		return fmt.Sprintf("%s: the list lasts %d afterwards, not %d", desc, sub.Duration(), d)
	}
	// a second call, on the result of the first (which may now end with a filler cue), to a later target
	if d2 > d {
		before := cuesOf(sub.Items)
		ptrs2 := append([]*astisub.Item(nil), sub.Items...)
		if p := guard(func() { sub.ForceDuration(time.Duration(d2), filler) }); p != "" {
			return p
		}
		exp2, added2 := c14Spec(before, d2, filler)
		got2 := cuesOf(sub.Items)
		if len(got2) != len(exp2) {
			return fmt.Sprintf("%s then ForceDuration(%d): got %s, specification %s", desc, d2, fmtCues(got2), fmtCues(exp2))
		}
		n2 := len(exp2)
		if added2 {
			n2--
			if f := sub.Items[n2]; int64(f.StartAt) != d2-ms || int64(f.EndAt) != d2 {
				return fmt.Sprintf("%s then ForceDuration(%d): filler is [%d,%d)", desc, d2, f.StartAt, f.EndAt)
			}
		}
		for k := 0; k < n2; k++ {
			if it := sub.Items[k]; it != ptrs2[k] || int64(it.StartAt) != exp2[k].S || int64(it.EndAt) != exp2[k].E {
				return fmt.Sprintf("%s then ForceDuration(%d): got %s, specification %s (cue %d must be left as it was)", desc, d2, fmtCues(got2), fmtCues(exp2), k)
			}
		}
	}
	return ""
}

// well-formed timelines on 0..6 ms: ordered by start, non-decreasing ends, start <= end (cues of no length included)
func c14Grid(maxCues int) [][]tcue {
	var out [][]tcue
	var rec func(prefix []tcue)
	rec = func(prefix []tcue) {
		out = append(out, append([]tcue(nil), prefix...))
		if len(prefix) == maxCues {
			return
		}
		var ls, le int64
		if len(prefix) > 0 {
			ls, le = prefix[len(prefix)-1].S, prefix[len(prefix)-1].E
		}
		for s := ls; s <= 6*ms; s += ms {
			for e := s; e <= 6*ms; e += ms {
				if e < le {
					continue
				}
				rec(append(prefix, tcue{s, e, fmt.Sprintf("t%d", len(prefix))}))
			}
		}
	}
	rec(nil)
	return out
}

var c14Cache = map[int][][]tcue{}
var c14Mu sync.Mutex

func c14Lists(tier string) [][]tcue {
	n := 3
	if tier == "thorough" {
		n = 4
	}
	c14Mu.Lock()
	defer c14Mu.Unlock()
	if g, ok := c14Cache[n]; ok {
		return g
	}
	c14Cache[n] = c14Grid(n)
	return c14Cache[n]
}

func c14Random(r *fw.Rand) ([]tcue, int64) {
	n := r.Intn(30)
	switch r.Intn(10) {
	case 0, 1:
		n = r.Range(30, 300) // long enough for any size-dependent path (binary search, chunking)
	case 2:
		n = fw.Pick(r, []int{63, 64, 65, 66, 127, 128, 129, 255, 256, 257, 1023, 1024, 1025, r.Range(300, 3000)})
	}
	cs := make([]tcue, n)
	var s, e int64
	for i := range cs {
		s += r.I64n(4) * fw.Pick(r, []int64{0, ms, 250 * ms, 1000 * ms}) // abutting, gaps, overlaps (same start)
		if s < 0 {
			s = 0
		}
		ne := s + (1+r.I64n(5000))*ms
		if r.P(1, 8) {
			ne = s // a cue of no length (a cleared caption): a legal member of a list with non-decreasing ends
		}
		if ne < e {
			ne = e
		}
		e = ne
		cs[i] = tcue{s, e, fmt.Sprintf("t%d", i)}
		if r.Bool() {
			s = e // abut
		}
	}
	var d int64
	switch r.Intn(5) {
	case 0:
		if n > 0 {
			c := cs[r.Intn(n)]
			d = fw.Pick(r, []int64{c.S, c.E, c.S + 1, c.E - 1, c.E + 1, (c.S + c.E) / 2})
		}
	case 1:
		d = e + (1+r.I64n(5000))*ms
	default:
		d = r.I64n(e + 2*ms)
	}
	if d < ms {
		d = ms
	}
	return cs, d
}

// ---------------------------------------------------------------------------------------------------------------
// C15 linear correction

func c15Exact(t, a1, d1, a2, d2 int64) *big.Rat {
	// d1 + (t - a1)(d2 - d1)/(a2 - a1)
	x := new(big.Rat).SetFrac(big.NewInt(0).Mul(big.NewInt(t-a1), big.NewInt(d2-d1)), big.NewInt(a2-a1))
	return x.Add(x, new(big.Rat).SetInt64(d1))
}

func c15Within(got int64, exact *big.Rat, tolNs int64) bool {
	diff := new(big.Rat).Sub(new(big.Rat).SetInt64(got), exact)
	diff.Abs(diff)
	return diff.Cmp(new(big.Rat).SetInt64(tolNs)) <= 0
}

var c15Slopes = [][2]int64{{25000, 23976}, {23976, 25000}, {30000, 29970}, {29970, 30000}, {1, 1}, {1, 2}, {2, 1}, {1001, 1000}, {1000, 1001}, {3, 2},
	// drifts of a fraction of a part per million (a slow clock over a long programme)
	{2000001, 2000000}, {1999999, 2000000}, {10000001, 10000000}, {9999999, 10000000}}

// mulDiv is x*num/den without intermediate overflow (truncated towards zero)
func mulDiv(x, num, den int64) int64 {
	v := new(big.Int).Mul(big.NewInt(x), big.NewInt(num))
	return v.Quo(v, big.NewInt(den)).Int64()
}

func c15Case(r *fw.Rand) (cs []tcue, a1, d1, a2, d2 int64, slopeKind string) {
	day := int64(24 * time.Hour)
	gran := fw.Pick(r, []int64{1, 1, 1000, 1000000, 1000000000})
	rnd := func() int64 { return r.I64n(day/gran+1) * gran }
	n := 1 + listSize(r, 11)
	cs = make([]tcue, n)
	for i := range cs {
		s := rnd()
		e := s + r.I64n(10*1e9/gran+1)*gran
		if e > day {
			e = day
		}
		if r.P(1, 10) {
			s, e = 0, r.I64n(5)*gran
		}
		cs[i] = tcue{s, e, fmt.Sprintf("t%d", i)}
	}
	if r.P(1, 5) {
		// small whole-second values: a corrected boundary often coincides with another cue's original boundary
		sl := fw.Pick(r, [][2]int64{{2, 1}, {1, 2}, {3, 2}, {1, 1}})
		n = r.Range(2, 8)
		cs = make([]tcue, n)
		var t int64
		for i := range cs {
			t += r.I64n(3) * 1e9
			e := t + r.I64n(4)*1e9
			cs[i] = tcue{t, e, fmt.Sprintf("t%d", i)}
			if r.Bool() {
				t = e * sl[0] / sl[1] // the next cue starts where this one's end will land
			} else {
				t = e
			}
		}
		a1, a2 = 0, int64(r.Range(1, 10))*1e9
		d1 = 0
		d2 = a2 * sl[0] / sl[1]
		return cs, a1, d1, a2, d2, fmt.Sprintf("small %d/%d", sl[0], sl[1])
	}
	if r.P(1, 4) {
		// very short cues (1 ns .. 1 ms) must be scaled like any other
		k := r.Intn(n)
		cs[k].E = cs[k].S + fw.Pick(r, []int64{1, 1000, 1000000, 999999, 1000001})
	}
	a1 = rnd()
	switch r.Intn(4) {
	case 0: // references as close as 1 ms
		a2 = a1 + fw.Pick(r, []int64{1, -1, 2, 40, 1000})*ms
	default:
		a2 = rnd()
	}
	if a2 < 0 {
		a2 = a1 + ms
	}
	if a2 > day {
		a2 = a1 - ms
	}
	if a2 == a1 {
		a2 = a1 + ms
	}
	d1 = rnd()
	if r.P(1, 4) {
		d1 = a1 - r.I64n(a1+1) // d1 <= a1: boundaries may map below zero
	}
	if r.P(2, 3) {
		sl := fw.Pick(r, c15Slopes)
		slopeKind = fmt.Sprintf("%d/%d", sl[0], sl[1])
		// d2 - d1 = (a2-a1)*num/den rounded to ns: slope within rounding of the named ratio
		x := new(big.Int).Mul(big.NewInt(a2-a1), big.NewInt(sl[0]))
		x.Quo(x, big.NewInt(sl[1]))
		d2 = d1 + x.Int64()
	} else {
		slopeKind = "random"
		f := 0.5 + 1.5*r.Float()
		d2 = d1 + int64(f*float64(a2-a1))
	}
	if d2 == d1 { // slope 0 is outside 0.5..2; keep it positive
		d2 = d1 + (a2 - a1)
	}
	if r.P(1, 8) {
		// one of the two reference points is the origin (0 -> 0): a pure change of speed
		sl := fw.Pick(r, c15Slopes)
		a := rnd() + gran
		x := new(big.Int).Mul(big.NewInt(a), big.NewInt(sl[0]))
		d := x.Quo(x, big.NewInt(sl[1])).Int64()
		if d == 0 {
			d = a
		}
		slopeKind = fmt.Sprintf("origin %d/%d", sl[0], sl[1])
		if r.Bool() {
			a1, d1, a2, d2 = 0, 0, a, d
		} else {
			a1, d1, a2, d2 = a, d, 0, 0
		}
	}
	return
}

func c15Check(cs []tcue, a1, d1, a2, d2 int64) string {
	sub := astisub.NewSubtitles()
	snaps := make([]string, len(cs))
	for k, c := range cs {
		it := decorate(textItem(time.Duration(c.S), time.Duration(c.E), c.T), k)
		sub.Items = append(sub.Items, it)
		snaps[k] = snapItem(it)
	}
	ptrs := append([]*astisub.Item(nil), sub.Items...)
	someMetadata(sub, int(uint64(a1+d2)%7))
	if (len(cs)+int(uint64(a1)&3))%4 == 1 {
		if p := guard(func() { prewarm(sub) }); p != "" {
			return p
		}
	}
	if p := guard(func() {
		sub.ApplyLinearCorrection(time.Duration(a1), time.Duration(d1), time.Duration(a2), time.Duration(d2))
	}); p != "" {
		return p
	}
	desc := fmt.Sprintf("ApplyLinearCorrection(a1=%d,d1=%d,a2=%d,d2=%d)", a1, d1, a2, d2)
	if !samePtrs(sub.Items, ptrs) {
		return fmt.Sprintf("%s changed the number, identity or order of cues (%d -> %d)", desc, len(ptrs), len(sub.Items))
	}
	const tol = 1000 // 1 microsecond
	slopePos := (d2 - d1) > 0 == ((a2 - a1) > 0)
	type bd struct{ in, out int64 }
	var bds []bd
	for k, it := range sub.Items {
		c := cs[k]
		if snapItem(it) != snaps[k] {
			return fmt.Sprintf("%s changed the content of cue %d", desc, k)
		}
		for _, p := range [][2]int64{{c.S, int64(it.StartAt)}, {c.E, int64(it.EndAt)}} {
			ex := c15Exact(p[0], a1, d1, a2, d2)
			if !c15Within(p[1], ex, tol) {
				return fmt.Sprintf("%s maps boundary %d to %d, exact value %s (off by more than 1 microsecond)", desc, p[0], p[1], ex.FloatString(3))
			}
			bds = append(bds, bd{p[0], p[1]})
		}
		// length scaled by the slope
		exLen := new(big.Rat).Sub(c15Exact(c.E, a1, d1, a2, d2), c15Exact(c.S, a1, d1, a2, d2))
		if !c15Within(int64(it.EndAt-it.StartAt), exLen, 2*tol) {
			return fmt.Sprintf("%s: cue %d length %d -> %d, slope says %s", desc, k, c.E-c.S, it.EndAt-it.StartAt, exLen.FloatString(3))
		}
	}
	if slopePos {
		// for every pair: in_i <= in_j implies out_i <= out_j (sorted by input, the outputs never step down, and equal
		// inputs have equal outputs)
		sort.Slice(bds, func(i, j int) bool {
			if bds[i].in != bds[j].in {
				return bds[i].in < bds[j].in
			}
			return bds[i].out < bds[j].out
		})
		for j := 1; j < len(bds); j++ {
			if bds[j-1].out > bds[j].out || (bds[j-1].in == bds[j].in && bds[j-1].out != bds[j].out) {
				return fmt.Sprintf("%s: boundary order not preserved: %d<=%d but %d and %d", desc, bds[j-1].in, bds[j].in, bds[j-1].out, bds[j].out)
			}
		}
	}
	// the reference points themselves
	ref := astisub.NewSubtitles()
	ref.Items = []*astisub.Item{textItem(time.Duration(a1), time.Duration(a2), "ref")}
	if p := guard(func() {
		ref.ApplyLinearCorrection(time.Duration(a1), time.Duration(d1), time.Duration(a2), time.Duration(d2))
	}); p != "" {
		return p
	}
	if g := int64(ref.Items[0].StartAt); g < d1-tol || g > d1+tol {
		return fmt.Sprintf("%s: a1 lands on %d, not on d1", desc, g)
	}
	if g := int64(ref.Items[0].EndAt); g < d2-tol || g > d2+tol {
		return fmt.Sprintf("%s: a2 lands on %d, not on d2", desc, g)
	}
	return ""
}

func c15CLI(c *fw.Ctx) fw.Outcome {
	r := c.R
	n := r.Range(1, 5)
	cs := make([]tcue, n)
	var t int64 = int64(r.Range(2000, 9000))
	for i := range cs {
		t += int64(r.Intn(3000))
		s := t
		t += int64(r.Range(1, 4000))
		cs[i] = tcue{s * 1e6, t * 1e6, fmt.Sprintf("text %d", i)}
	}
	a1 := int64(r.Range(1, 5000)) * 1e6
	a2 := a1 + int64(r.Range(1000, 600000))*1e6
	sl := fw.Pick(r, c15Slopes)
	d1 := a1 + int64(r.Range(0, 1500))*1e6
	d2 := d1 + mulDiv(a2-a1, sl[0], sl[1])
	if r.Bool() {
		// the reference points given latest first: the line through two points does not depend on their order
		a1, d1, a2, d2 = a2, d2, a1, d1
	}
	in, out, unit, formats := cliFiles(c, r, cs)
	key := hashCues(cs, uint64(a1), uint64(d1), uint64(a2), uint64(d2))
	msg, err := cli("apply-linear-correction", "-i", in, "-a1", time.Duration(a1).String(), "-d1", time.Duration(d1).String(), "-a2", time.Duration(a2).String(), "-d2", time.Duration(d2).String(), "-o", out)
	if err != nil {
		return fw.Bad(key, nil, "CLI apply-linear-correction failed: %v %s", err, msg)
	}
	got, err := astisub.OpenFile(out)
	if err != nil {
		return fw.Bad(key, nil, "CLI apply-linear-correction output unreadable: %v", err)
	}
	if len(got.Items) != len(cs) {
		return fw.Bad(key, nil, "CLI apply-linear-correction: %d cues in, %d out", len(cs), len(got.Items))
	}
	for k, it := range got.Items {
		for _, p := range [][2]int64{{cs[k].S, int64(it.StartAt)}, {cs[k].E, int64(it.EndAt)}} {
			ex := c15Exact(p[0], a1, d1, a2, d2)
			// the writer truncates to the millisecond (centisecond for SSA): allow [exact-unit-1us, exact+1us]
			lo := new(big.Rat).Sub(ex, new(big.Rat).SetInt64(unit+1000))
			hi := new(big.Rat).Add(ex, new(big.Rat).SetInt64(1000))
			g := new(big.Rat).SetInt64(p[1])
			if g.Cmp(lo) < 0 || g.Cmp(hi) > 0 {
				return fw.Bad(key, nil, "CLI apply-linear-correction (%s, a1=%d d1=%d a2=%d d2=%d): boundary %d written as %d, exact %s", formats, a1, d1, a2, d2, p[0], p[1], ex.FloatString(1))
			}
		}
		if itemText(it) != cs[k].T {
			return fw.Bad(key, nil, "CLI apply-linear-correction changed the text of cue %d", k)
		}
	}
	c.Count("cli_linear_runs", 1)
	return fw.OK(key, map[string]interface{}{"cli": "apply-linear-correction", "a1": a1, "d1": d1, "a2": a2, "d2": d2})
}

func init() {
	c14Rand := func(tier string) int64 { return tierN(tier, 30000, 1500000) }
	fw.Register(&fw.Property{
		ID:    "C14",
		Level: "exploration",
		Rule: "case = one well-formed timeline (ordered by start, non-decreasing ends, start<end) x targets d x filler in {false,true}, compared with the statement written as code (drop start>=d, clip end>d, filler [d-1ms,d) iff requested and the last remaining cue ends before d or none remains, unchanged when already lasting d); identity and content of kept cues. " +
			"Grid (exhaustive): every timeline of 0..3 (0..4 thorough) cues on 0..6 ms incl. overlapping and abutting cues, d in 1..8 ms. Random: <=30 cues, d before/inside/between/on boundaries/after. A fifth of the random lists has 30..3000 cues (sizes around 64/128/256/1024 included); before a filler case another list of the process gets a filler which its owner edits in place: the new filler must read like a pristine one; lists carry metadata of every source format and some have a past (see C09). distinct_nontrivial = distinct (timeline, d-set) inputs compared.",
		Assumptions: []string{"d >= 1 ms; cues ordered by start with non-decreasing ends and start < end (the property's precondition)"},
		Cases:       func(tier string) int64 { return int64(len(c14Lists(tier))) + c14Rand(tier) },
		Exhaustive: func(tier string) string {
			return fmt.Sprintf("all %d grid timelines x d in 1..8 ms x filler in {false,true}", len(c14Lists(tier)))
		},
		Anchors: []string{"Subtitles.ForceDuration", "Subtitles.Duration"},
		Run: func(c *fw.Ctx) fw.Outcome {
			lists := c14Lists(c.Tier)
			if c.Idx < int64(len(lists)) {
				cs := lists[c.Idx]
				for d := ms; d <= 8*ms; d += ms {
					for _, f := range []bool{false, true} {
						if msg := c14Check2(cs, d, f, d+ms+(d%(2*ms))); msg != "" {
							return fw.Bad(hashCues(cs), nil, "%s", msg)
						}
					}
				}
				c.Count("grid_forcings_checked", 16)
				c.Feature(fmt.Sprintf("grid len=%d", len(cs)))
				return fw.OK(hashCues(cs), map[string]interface{}{"cues_ns": fmtCues(cs), "d": "1..8ms", "filler": "both"})
			}
			cs, d := c14Random(c.R)
			d2 := d + (1+c.R.I64n(4000))*fw.Pick(c.R, []int64{1, ms})
			for _, f := range []bool{false, true} {
				if msg := c14Check2(cs, d, f, d2); msg != "" {
					return fw.Bad(hashCues(cs, uint64(d)), nil, "%s", msg)
				}
			}
			c.Count("random_forcings_checked", 4)
			c.Feature(fmt.Sprintf("random len=%d", len(cs)/5*5))
			return fw.OK(hashCues(cs, uint64(d)), nil)
		},
	})

	c15Lib := func(tier string) int64 { return tierN(tier, 60000, 2000000) }
	c15Cli := func(tier string) int64 { return tierN(tier, 96, 1000) }
	fw.Register(&fw.Property{
		ID:          "C15",
		Level:       "exploration",
		Rule:        "case = 1..12 cues with boundaries in [0,24h] (ns, us, ms or s granular) and a reference quadruple a1 != a2 anywhere in [0,24h] (also 1 ms apart), slope one of 25/23.976, 23.976/25, 30/29.97, 29.97/30, 1, 1/2, 2, 1001/1000, 1000/1001, 3/2 or random in 0.5..2; d1 may lie below a1 so that boundaries map below zero. Oracle: math/big.Rat value of d1+(t-a1)(d2-d1)/(a2-a1), |got-exact| <= 1 us per boundary, cue length scaled (<= 2 us), a1->d1 and a2->d2, boundary order preserved for positive slope, cue count/identity/content unchanged. CLI: apply-linear-correction on SRT (ms truncation allowed for). Lists carry metadata of every source format (frame rates 7/24/25/30 included) and some have a past (see C09); the CLI is given the reference points in either order. distinct_nontrivial = distinct (list, quadruple) inputs compared.",
		Assumptions: []string{"slopes between 0.5 and 2, boundaries within [0,24h] (the property's quantifier)"},
		Cases:       func(tier string) int64 { return c15Lib(tier) + c15Cli(tier) },
		Anchors:     []string{"Subtitles.ApplyLinearCorrection", "astisub/main.go apply-linear-correction"},
		Run: func(c *fw.Ctx) fw.Outcome {
			if c.Idx >= c15Lib(c.Tier) {
				if !haveCLI() {
					return fw.Skip()
				}
				c.Feature("cli apply-linear-correction")
				return c15CLI(c)
			}
			cs, a1, d1, a2, d2, kind := c15Case(c.R)
			key := hashCues(cs, uint64(a1), uint64(d1), uint64(a2), uint64(d2))
			if msg := c15Check(cs, a1, d1, a2, d2); msg != "" {
				return fw.Bad(key, nil, "%s", msg)
			}
			c.Count("boundaries_checked", int64(2*len(cs)))
			c.Feature("slope " + kind)
			return fw.OK(key, map[string]interface{}{"cues": fmtCues(cs), "a1": a1, "d1": d1, "a2": a2, "d2": d2, "slope": kind})
		},
	})
}
