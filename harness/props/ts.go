package props

import (
	"bytes"
	"math/bits"
)

// Minimal MPEG transport stream and EBU teletext (ETS 300 706 / EN 300 472) encoders, written for the harness:
// they share no code with the library or with the demultiplexer it uses.

type tsWriter struct {
	buf bytes.Buffer
	cc  map[uint16]byte
}

func newTSWriter() *tsWriter { return &tsWriter{cc: map[uint16]byte{}} }

// packet writes one 188-byte packet carrying at most 184 payload bytes (shorter payloads are preceded by an
// adaptation field made of stuffing)
func (w *tsWriter) packet(pid uint16, pusi bool, payload []byte) {
	if len(payload) > 184 {
		panic("payload too long")
	}
	var p [188]byte
	p[0] = 0x47
	p[1] = byte(pid >> 8 & 0x1f)
	if pusi {
		p[1] |= 0x40
	}
	p[2] = byte(pid)
	cc := w.cc[pid]
	w.cc[pid] = (cc + 1) & 0xf
	off := 4
	if len(payload) == 184 {
		p[3] = 0x10 | cc
	} else {
		p[3] = 0x30 | cc
		afl := 183 - len(payload)
		p[4] = byte(afl)
		off = 5
		if afl > 0 {
			p[5] = 0x00
			for i := 6; i < 5+afl; i++ {
				p[i] = 0xff
			}
			off = 5 + afl
		}
	}
	copy(p[off:], payload)
	w.buf.Write(p[:])
}

func (w *tsWriter) null() {
	var p [188]byte
	p[0], p[1], p[2], p[3] = 0x47, 0x1f, 0xff, 0x10
	for i := 4; i < 188; i++ {
		p[i] = 0xff
	}
	w.buf.Write(p[:])
}

// payloadUnit writes a PES packet or a PSI section (already carrying its pointer field) over as many packets as needed
func (w *tsWriter) payloadUnit(pid uint16, data []byte, psi bool) {
	first := true
	for len(data) > 0 || first {
		n := len(data)
		if n > 184 {
			n = 184
		}
		chunk := data[:n]
		if psi && n < 184 {
			// PSI: stuff with 0xff after the section instead of an adaptation field
			c := make([]byte, 184)
			copy(c, chunk)
			for i := n; i < 184; i++ {
				c[i] = 0xff
			}
			chunk = c
		}
		w.packet(pid, first, chunk)
		data = data[n:]
		first = false
	}
}

func crc32mpeg(b []byte) uint32 {
	crc := uint32(0xffffffff)
	for _, c := range b {
		crc ^= uint32(c) << 24
		for i := 0; i < 8; i++ {
			if crc&0x80000000 != 0 {
				crc = crc<<1 ^ 0x04c11db7
			} else {
				crc <<= 1
			}
		}
	}
	return crc
}

func psiSection(tableID byte, idExt uint16, body []byte) []byte {
	n := 5 + len(body) + 4
	s := []byte{tableID, 0xb0 | byte(n>>8&0x0f), byte(n), byte(idExt >> 8), byte(idExt), 0xc1, 0x00, 0x00}
	s = append(s, body...)
	c := crc32mpeg(s)
	s = append(s, byte(c>>24), byte(c>>16), byte(c>>8), byte(c))
	return append([]byte{0x00}, s...) // pointer field
}

func patSection(programs [][2]uint16) []byte {
	var body []byte
	for _, p := range programs {
		body = append(body, byte(p[0]>>8), byte(p[0]), 0xe0|byte(p[1]>>8&0x1f), byte(p[1]))
	}
	return psiSection(0x00, 1, body)
}

type pmtStream struct {
	streamType  byte
	pid         uint16
	descriptors []byte
}

func teletextDescriptor(tag byte, mag, page int) []byte {
	// language "eng", type 2 (subtitle page), magazine, page number (BCD)
	return []byte{tag, 5, 'e', 'n', 'g', byte(2<<3 | mag&7), byte(page/10<<4 | page%10)}
}

func pmtSection(program, pcrPID uint16, streams []pmtStream) []byte {
	body := []byte{0xe0 | byte(pcrPID>>8&0x1f), byte(pcrPID), 0xf0, 0x00}
	for _, s := range streams {
		body = append(body, s.streamType, 0xe0|byte(s.pid>>8&0x1f), byte(s.pid), 0xf0|byte(len(s.descriptors)>>8&0x0f), byte(len(s.descriptors)))
		body = append(body, s.descriptors...)
	}
	return psiSection(0x02, program, body)
}

// pesPacket builds a PES packet with a PTS (90 kHz) when pts >= 0
func pesPacket(streamID byte, pts int64, longHeader bool, data []byte) []byte {
	var opt []byte
	if pts >= 0 {
		hdr := []byte{byte(0x21 | (pts>>30&7)<<1), byte(pts >> 22), byte(0x01 | (pts>>15&0x7f)<<1), byte(pts >> 7), byte(0x01 | (pts&0x7f)<<1)}
		stuffing := 0
		if longHeader {
			stuffing = 0x24 - 5
		}
		opt = []byte{0x84, 0x80, byte(5 + stuffing)}
		opt = append(opt, hdr...)
		for i := 0; i < stuffing; i++ {
			opt = append(opt, 0xff)
		}
	} else {
		opt = []byte{0x84, 0x00, 0x00}
	}
	n := len(opt) + len(data)
	if n > 0xffff {
		n = 0
	}
	p := []byte{0x00, 0x00, 0x01, streamID, byte(n >> 8), byte(n)}
	p = append(p, opt...)
	return append(p, data...)
}

// ---------------------------------------------------------------------------------------------------------------
// teletext

// Hamming 8/4 code words of ETS 300 706 (table 8.2 order: data bits D1..D4 = value bits 0..3), as transmitted;
// in a transport stream every teletext byte is bit-reversed
var ham84Std = [16]byte{0x15, 0x02, 0x49, 0x5e, 0x64, 0x73, 0x38, 0x2f, 0xd0, 0xc7, 0x8c, 0x9b, 0xa1, 0xb6, 0xfd, 0xea}

func ham84(n byte) byte { return bits.Reverse8(ham84Std[n&0xf]) }

// oddParity returns the 7-bit code with the parity bit set so that the number of ones is odd, bit-reversed for TS
func oddParity(c byte) byte {
	c &= 0x7f
	if bits.OnesCount8(c)%2 == 0 {
		c |= 0x80
	}
	return bits.Reverse8(c)
}

// evenParityTS returns the code with WRONG (even) parity
func evenParityTS(c byte) byte {
	c &= 0x7f
	if bits.OnesCount8(c)%2 == 1 {
		c |= 0x80
	}
	return bits.Reverse8(c)
}

// ttxUnit builds a 46-byte data unit: id, length 0x2c, field parity/line offset, framing code, address, 40 bytes
func ttxUnit(unitID byte, framing byte, mag, packet int, payload [40]byte) []byte {
	u := []byte{unitID, 0x2c, 0xe7, framing, ham84(byte(mag&7) | byte(packet&1)<<3), ham84(byte(packet >> 1))}
	return append(u, payload[:]...)
}

type ttxHeaderFlags struct {
	erase, subtitle, serial bool
	newsflash               bool // C5
	charset                 int  // C12 + 2*C13 + 4*C14
}

func ttxHeader(page int, f ttxHeaderFlags) (p [40]byte) {
	return ttxHeaderNibbles(page/10, page%10, f)
}

// ttxHeaderNibbles takes the page tens and units as transmitted (hexadecimal digits allowed: data pages)
func ttxHeaderNibbles(tens, units int, f ttxHeaderFlags) (p [40]byte) {
	b := func(v bool, s uint) byte {
		if v {
			return 1 << s
		}
		return 0
	}
	p[0] = ham84(byte(units))
	p[1] = ham84(byte(tens))
	p[2] = ham84(0)
	p[3] = ham84(b(f.erase, 3))
	p[4] = ham84(0)
	p[5] = ham84(b(f.subtitle, 3) | b(f.newsflash, 2))
	p[6] = ham84(0)
	p[7] = ham84(b(f.serial, 0) | byte(f.charset&7)<<1)
	for i := 8; i < 40; i++ {
		p[i] = oddParity(' ')
	}
	return
}

func stuffingUnit() []byte {
	u := []byte{0xff, 0x2c}
	for i := 0; i < 44; i++ {
		u = append(u, 0xff)
	}
	return u
}
