package props

import (
	"bytes"
	"crypto/sha256"
	"encoding/hex"
	"fmt"
	"io"
	"os"
	"os/exec"
	"path/filepath"
	"strconv"
	"strings"
	"time"

	astisub "github.com/asticode/go-astisub"
	"verif/harness/fw"
)

// C19 Writers are pure and deterministic.

func sha(b []byte) string {
	h := sha256.Sum256(b)
	return hex.EncodeToString(h[:8])
}

// all permutations of 0..n-1
func permutations(n int) [][]int {
	var out [][]int
	var rec func(p []int, used int)
	rec = func(p []int, used int) {
		if len(p) == n {
			out = append(out, append([]int(nil), p...))
			return
		}
		for i := 0; i < n; i++ {
			if used&(1<<uint(i)) == 0 {
				rec(append(p, i), used|1<<uint(i))
			}
		}
	}
	rec(nil, 0)
	return out
}

var c19Perms = permutations(5)

// c19TabOption is one option value used by every case of the process
var c19TabOption = astisub.WriteToTTMLWithIndentOption("\t")

// c19Hashes writes the list built from (seed) with every writer and returns "name=hash" per writer (errors included)
func c19Hashes(seed uint64) []string {
	s := c19List(seed)
	if s.Metadata != nil && seed%2 == 0 {
		// every language the library has a code for comes up in the lists compared across processes (a table built
		// at start-up in an order of its own would give another code in another process)
		s.Metadata.Language = []string{astisub.LanguageNorwegian, astisub.LanguageChinese, astisub.LanguageNorwegian, astisub.LanguageJapanese, astisub.LanguageNorwegian, astisub.LanguageFrench, astisub.LanguageNorwegian, astisub.LanguageEnglish}[seed/2%8]
	}
	var out []string
	for _, w := range allWriters {
		b, err, p := writeBytes(w, s)
		out = append(out, fmt.Sprintf("%s=%s/%v/%v", w.name, sha(b), err != nil, p != ""))
	}
	return out
}

// c19List is the list of a seed. Round 13: in every third list one style alone carries style-sheet lines, they end
// in blanks or tabs and their slice has room to spare (a writer that tidies such lines must do so on a copy)
func c19List(seed uint64) *astisub.Subtitles {
	s := richSubtitles(fw.NewRand(seed))
	if seed%3 != 0 {
		return s
	}
	first := ""
	for id, st := range s.Styles {
		if st != nil && st.InlineStyle != nil && len(st.InlineStyle.WebVTTStyles) > 0 && (first == "" || id < first) {
			first = id
		}
	}
	for id, st := range s.Styles {
		if st == nil || st.InlineStyle == nil || len(st.InlineStyle.WebVTTStyles) == 0 {
			continue
		}
		if id != first {
			st.InlineStyle.WebVTTStyles = nil
			continue
		}
		lines := make([]string, 0, 8)
		for k, l := range st.InlineStyle.WebVTTStyles {
			lines = append(lines, l+[]string{" ", "\t", "  "}[k%3])
		}
		st.InlineStyle.WebVTTStyles = lines
	}
	return s
}

func c19Run(c *fw.Ctx) fw.Outcome {
	seed := c.R.U64()
	s := c19List(seed)
	key := fw.Mix(seed, 0xc19)
	desc := fmt.Sprintf("list seed=%d: %d cues, %d styles, %d regions, metadata=%v", seed, len(s.Items), len(s.Styles), len(s.Regions), s.Metadata != nil)
	before := deepDump(s)
	solo := map[string][]byte{}
	soloErr := map[string]bool{}
	// (a) 50 repetitions in one process, (c) input untouched
	for _, w := range allWriters {
		for rep := 0; rep < 50; rep++ {
			b, err, p := writeBytes(w, s)
			if p != "" {
				return fw.Bad(key, desc, "%s writer panicked on {%s}: %s", w.name, desc, p)
			}
			if rep == 0 {
				solo[w.name], soloErr[w.name] = b, err != nil
			} else if !bytes.Equal(b, solo[w.name]) || (err != nil) != soloErr[w.name] {
				return fw.Bad(key, desc, "%s writer: repetition %d of writing the same list gives different bytes (%s vs %s) on {%s}: %s", w.name, rep, sha(b), sha(solo[w.name]), desc, firstDiff(string(solo[w.name]), string(b)))
			}
			if rep < 2 {
				if after := deepDump(s); after != before {
					return fw.Bad(key, desc, "%s writer modified the cue list it was given ({%s}): %s", w.name, desc, firstDiff(before, after))
				}
			}
		}
		c.Count("writes_"+w.name, 50)
	}
	if after := deepDump(s); after != before {
		return fw.Bad(key, desc, "a writer modified the cue list it was given ({%s}): %s", desc, firstDiff(before, after))
	}
	// (d) every order of the five writers on one list object gives the solo outputs
	perms := c19Perms
	if !c.Thorough() {
		// quick: 24 of the 120 orders, rotating with the case index
		start := int(c.Idx%5) * 24
		perms = c19Perms[start : start+24]
	}
	for _, perm := range perms {
		s2 := c19List(seed)
		for _, wi := range perm {
			w := allWriters[wi]
			b, err, p := writeBytes(w, s2)
			if p != "" || !bytes.Equal(b, solo[w.name]) || (err != nil) != soloErr[w.name] {
				var names []string
				for _, x := range perm {
					names = append(names, allWriters[x].name)
				}
				return fw.Bad(key, desc, "writing in the order %v: the %s output differs from writing to %s alone ({%s}): %s %s", names, w.name, w.name, desc, firstDiff(string(solo[w.name]), string(b)), p)
			}
		}
		c.Count("writer_orders_checked", 1)
	}
	// (g) what was written in between does not matter: other lists of every kind, and this list with the TTML
	// writer's indentation option, are written, then the list itself again
	for k := uint64(1); k <= 3; k++ {
		other := richSubtitles(fw.NewRand(seed + k*0x9e3779b97f4a7c15))
		for _, w := range allWriters {
			writeBytes(w, other)
		}
	}
	for _, ind := range []string{"\t", "", "  "} {
		var b1, b2 bytes.Buffer
		e1 := s.WriteToTTML(&b1, astisub.WriteToTTMLWithIndentOption(ind))
		e2 := s.WriteToTTML(&b2, astisub.WriteToTTMLWithIndentOption(ind))
		if ind == "\t" {
			// round 13: an option value is not a document - one that has been used before, behind another option,
			// means what a new one means
			s.WriteToTTML(io.Discard, astisub.WriteToTTMLWithIndentOption("  "), c19TabOption)
			b2.Reset()
			e2 = s.WriteToTTML(&b2, c19TabOption)
		}
		if !bytes.Equal(b1.Bytes(), b2.Bytes()) || (e1 != nil) != (e2 != nil) {
			return fw.Bad(key, desc, "ttml writer with indentation %q: two writes of the same list differ ({%s}): %s", ind, desc, firstDiff(b1.String(), b2.String()))
		}
	}
	for _, w := range allWriters {
		b, err, p := writeBytes(w, s)
		if p != "" || !bytes.Equal(b, solo[w.name]) || (err != nil) != soloErr[w.name] {
			return fw.Bad(key, desc, "%s writer: after other lists (and this one with another TTML indentation) were written in between, the same list gives different bytes ({%s}): %s %s", w.name, desc, firstDiff(string(solo[w.name]), string(b)), p)
		}
	}
	c.Count("rewrites_after_other_lists", int64(len(allWriters)))
	if after := deepDump(s); after != before {
		return fw.Bad(key, desc, "a writer modified the cue list it was given ({%s}): %s", desc, firstDiff(before, after))
	}
	// (i) the same list through the file-level helper gives the same bytes whatever the path held before: nothing, the
	// same document, or an earlier and longer one
	if c.Idx%4 == 0 {
		exts := map[string]string{"srt": "srt", "ssa": "ssa", "stl": "stl", "ttml": "ttml", "webvtt": "vtt"}
		for _, w := range allWriters {
			if soloErr[w.name] {
				continue
			}
			path := filepath.Join(c.TmpDir(), "c19-file."+exts[w.name])
			for round, before := range [][]byte{nil, solo[w.name], append(append([]byte(nil), solo[w.name]...), bytes.Repeat([]byte("left over from an earlier, longer file\n"), 120)...)} {
				os.Remove(path)
				if before != nil {
					os.WriteFile(path, before, 0o644)
				}
				var err error
				if p := guard(func() { err = s.Write(path) }); p != "" || err != nil {
					os.Remove(path)
					return fw.Bad(key, desc, "Subtitles.Write to a .%s file fails (%v %s) on a list its writer accepts ({%s})", exts[w.name], err, p, desc)
				}
				got, _ := os.ReadFile(path)
				os.Remove(path)
				if !bytes.Equal(got, solo[w.name]) {
					return fw.Bad(key, desc, "Subtitles.Write to a .%s file (round %d: the path held %d bytes before) leaves %d bytes that differ from the writer's own output of %d bytes ({%s}): %s", exts[w.name], round, len(before), len(got), len(solo[w.name]), desc, firstDiff(string(solo[w.name]), string(got)))
				}
				c.Count("file_level_writes_compared", 1)
			}
		}
	}
	// (h) a list that has been written before and is then edited in place through its public fields is written like a
	// fresh list with the same content: a writer keeps nothing about a list from one call to the next
	c19Edit := func(l *astisub.Subtitles) {
		for k, it := range l.Items {
			it.StartAt += time.Duration(k+1) * time.Millisecond
			it.EndAt += time.Duration(k+2) * time.Millisecond
			for li := range it.Lines {
				for ri := range it.Lines[li].Items {
					run := &it.Lines[li].Items[ri]
					run.Text = "edited " + run.Text
					if run.InlineStyle != nil {
						run.InlineStyle.SRTBold, run.InlineStyle.SRTItalics = !run.InlineStyle.SRTBold, !run.InlineStyle.SRTItalics
						run.InlineStyle.WebVTTTags = nil
						run.InlineStyle.SSAEffect = ""
					}
				}
			}
		}
	}
	fresh := c19List(seed)
	c19Edit(s)
	c19Edit(fresh)
	for _, w := range allWriters {
		b1, e1, p1 := writeBytes(w, s)
		b2, e2, p2 := writeBytes(w, fresh)
		if p1 != "" || p2 != "" || !bytes.Equal(b1, b2) || (e1 != nil) != (e2 != nil) {
			return fw.Bad(key, desc, "%s writer: a list that was written before and then edited in place gives other bytes than a fresh list with the same content ({%s}): %s %s%s", w.name, desc, firstDiff(string(b2), string(b1)), p1, p2)
		}
	}
	c.Count("rewrites_after_an_edit_in_place", int64(len(allWriters)))
	s = c19List(seed) // (the clock step below works on the unedited list)
	// (e) the injectable clock: only STL may depend on it, and only when the metadata lacks a date, and only in the
	// creation/revision date bytes of the GSI block
	defer func() { astisub.Now = func() time.Time { return fixedNow } }()
	var clocked [2]map[string][]byte
	for k, now := range []time.Time{time.Date(2001, 2, 3, 4, 5, 6, 0, time.UTC), time.Date(2033, 11, 12, 13, 14, 15, 0, time.FixedZone("far-west", -11*3600))} {
		now := now
		astisub.Now = func() time.Time { return now }
		clocked[k] = map[string][]byte{}
		for _, w := range allWriters {
			b, _, p := writeBytes(w, s)
			if p != "" {
				return fw.Bad(key, desc, "%s writer panicked: %s", w.name, p)
			}
			clocked[k][w.name] = b
		}
	}
	astisub.Now = func() time.Time { return fixedNow }
	bothDates := s.Metadata != nil && s.Metadata.STLCreationDate != nil && s.Metadata.STLRevisionDate != nil
	for _, w := range allWriters {
		a, b := clocked[0][w.name], clocked[1][w.name]
		if w.name != "stl" || bothDates {
			if !bytes.Equal(a, b) {
				return fw.Bad(key, desc, "%s output depends on the clock ({%s}, both STL dates in metadata: %v): %s", w.name, desc, bothDates, firstDiff(string(a), string(b)))
			}
			continue
		}
		if len(a) != len(b) {
			return fw.Bad(key, desc, "stl output length depends on the clock")
		}
		diffDates := false
		for i := range a {
			if a[i] != b[i] {
				if i < 224 || i > 235 {
					return fw.Bad(key, desc, "stl output differs between two clocks at byte %d, outside the creation/revision date fields (224..235)", i)
				}
				// each of the two dates on its own: a date the metadata supplies does not follow the clock
				if i <= 229 && s.Metadata != nil && s.Metadata.STLCreationDate != nil {
					return fw.Bad(key, desc, "stl output: the creation date field (byte %d) follows the clock although the metadata supplies the creation date ({%s})", i, desc)
				}
				if i >= 230 && s.Metadata != nil && s.Metadata.STLRevisionDate != nil {
					return fw.Bad(key, desc, "stl output: the revision date field (byte %d) follows the clock although the metadata supplies the revision date ({%s})", i, desc)
				}
				diffDates = true
			}
		}
		if !diffDates && len(a) > 0 {
			return fw.Bad(key, desc, "stl metadata supplies no creation/revision date but the output does not take it from the injectable clock")
		}
	}
	c.Feature(fmt.Sprintf("styles=%d regions=%d meta=%v dates=%v", len(s.Styles), len(s.Regions), s.Metadata != nil, bothDates))
	return fw.OK(key, desc)
}

// cross-process phase (driver): the same lists written in fresh processes give the same hashes
func c19Driver(d *fw.DriverCtx) []fw.Outcome {
	n := 24
	procs := 6
	if d.Tier == "thorough" {
		n, procs = 200, 10
	}
	var seeds []string
	var seedVals []uint64
	for i := 0; i < n; i++ {
		sd := fw.Mix(uint64(d.Seed), 0xc19c19, uint64(i))
		seedVals = append(seedVals, sd)
		seeds = append(seeds, strconv.FormatUint(sd, 10))
	}
	var ref []string
	var outs []fw.Outcome
	for p := 0; p < procs; p++ {
		cmd := exec.Command(d.Exe, append([]string{"c19hash"}, seeds...)...)
		b, err := cmd.Output()
		if err != nil {
			return []fw.Outcome{{Status: fw.Inconclusive, Detail: fmt.Sprintf("child process for the cross-process comparison failed: %v", err)}}
		}
		lines := strings.Split(strings.TrimSpace(string(b)), "\n")
		if p == 0 {
			ref = lines
			continue
		}
		for i := range lines {
			if i < len(ref) && lines[i] != ref[i] {
				return []fw.Outcome{fw.Bad(seedVals[i], seeds[i], "writing list seed=%s in two fresh processes gives different outputs: %s vs %s", seeds[i], ref[i], lines[i])}
			}
		}
	}
	d.Counters["cross_process_lists"] = int64(n)
	d.Counters["cross_process_processes"] = int64(procs)
	for i := 0; i < n; i++ {
		outs = append(outs, fw.OK(seedVals[i]^0x77, nil))
	}
	return outs
}

var c19Digest string

func init() {
	fw.RegisterCommand("c19hash", func(args []string) int {
		for _, a := range args {
			sd, _ := strconv.ParseUint(a, 10, 64)
			fmt.Println(strings.Join(c19Hashes(sd), " "))
		}
		return 0
	})
	fw.Register(&fw.Property{
		ID:          "C19",
		Level:       "exploration",
		Rule:        "case = one cue list with 0..6 styles and 0..6 regions having heterogeneous attribute subsets (SSA attribute subsets, TTML attributes, WebVTT STYLE lines spread over several styles, styles without inline attributes, parents), metadata of every format present or absent, STL dates both/one/none. Oracle: (a) each of the 5 writers run 50 times on the list gives one distinct output; (b) driver phase: the same lists written in 6 (thorough 10) fresh processes give the same hashes; (c) a pointer-graph-aware deep dump of the list is identical before and after every write; (d) writing to the five formats in 24 (thorough: all 120) different orders on one list object gives the solo outputs; (e) under two different injected clocks all outputs are identical except STL when the metadata lacks a date, and then only GSI bytes 224..235 differ; (f) the package state digest (verif hook) and the data-segment digests (every package-level variable of the library as linked into the monitor, byte for byte and through slices/strings/pointers using the debug information) are unchanged at the end of the worker; (h) the list, written before, is edited in place (times, texts, bold/italic, tags) and must then be written exactly like a fresh list edited the same way; (g) after three other lists have gone through all writers and the list itself through the TTML writer with three indentation options, every writer still gives the solo output; (i) every fourth list also goes through Subtitles.Write to a path that held nothing, the same document, or a longer earlier file: the file must hold the writer's own bytes. distinct_nontrivial = distinct lists.",
		Assumptions: []string{"map iteration order is randomised by the Go runtime on every range statement, so 50 repetitions expose order dependence with overwhelming probability when at least two map entries contribute"},
		Cases:       func(tier string) int64 { return tierN(tier, 300, 20000) },
		Setup: func(c *fw.Ctx) error {
			c19Digest = stateDigest()
			datasegMark()
			return nil
		},
		Final: func(c *fw.Ctx) []fw.Outcome {
			if d := stateDigest(); d != c19Digest {
				return []fw.Outcome{fw.Bad(1, nil, "the package state digest changed while writing (%s -> %s): a writer left mutable package state behind", c19Digest, d)}
			}
			return []fw.Outcome{fw.OK(fw.HashString(c19Digest), "state digest unchanged: "+c19Digest), datasegVerdict("while writing")}
		},
		Driver:  c19Driver,
		Anchors: []string{"WriteToSRT", "WriteToSSA", "WriteToSTL", "WriteToTTML", "WriteToWebVTT", "newGSIBlock", "Now"},
		Run:     c19Run,
	})
}
