package props

import (
	"bytes"
	"fmt"
	"os"
	"path/filepath"
	"sort"
	"strings"
	"time"

	astisub "github.com/asticode/go-astisub"
	"verif/harness/fw"
)

// C13 Optimize (drop only unreachable definitions) and RemoveStyling (drop only styling).

type c13Model struct {
	sub  *astisub.Subtitles
	desc string
}

func sp(s string) *string { return &s }

// c13Random builds a cue list with an arbitrary reference graph
func c13Random(r *fw.Rand) c13Model {
	s := astisub.NewSubtitles()
	ns, nr := r.Intn(7), r.Intn(5)
	var styles []*astisub.Style
	var desc []string
	// one list in five names its definitions so that they differ by letter case only (identifiers are exact strings)
	sid := func(k int) string { return fmt.Sprintf("s%d", k) }
	rid := func(k int) string { return fmt.Sprintf("r%d", k) }
	if r.P(1, 5) {
		sid = func(k int) string {
			return []string{"speaker", "Speaker", "SPEAKER", "speakeR", "sPeaker", "SpeakeR", "spEAKer"}[k]
		}
		rid = func(k int) string { return []string{"bottom", "Bottom", "BOTTOM", "bottoM", "bOttom"}[k] }
	}
	for k := 0; k < ns; k++ {
		st := &astisub.Style{ID: sid(k), InlineStyle: &astisub.StyleAttributes{TTMLColor: sp(fmt.Sprintf("#%06x", k)), SSAFontName: fmt.Sprintf("f%d", k)}}
		if k > 0 && r.P(3, 5) {
			st.Style = styles[r.Intn(k)] // parent among earlier styles: a forest, chains up to depth k
			desc = append(desc, fmt.Sprintf("%s<%s", st.ID, st.Style.ID))
		}
		styles = append(styles, st)
		s.Styles[st.ID] = st
	}
	var regions []*astisub.Region
	for k := 0; k < nr; k++ {
		rg := &astisub.Region{ID: rid(k), InlineStyle: &astisub.StyleAttributes{TTMLExtent: sp("50% 10%"), WebVTTWidth: "50%"}}
		if ns > 0 && r.Bool() {
			rg.Style = styles[r.Intn(ns)]
			desc = append(desc, fmt.Sprintf("%s>%s", rg.ID, rg.Style.ID))
		}
		regions = append(regions, rg)
		s.Regions[rg.ID] = rg
	}
	nc := r.Range(1, 6)
	if r.P(1, 25) {
		nc = 0
	}
	var t int64
	for k := 0; k < nc; k++ {
		t += int64(r.Intn(3)) * 1e9
		it := &astisub.Item{StartAt: time.Duration(t), EndAt: time.Duration(t + 1e9 + int64(r.Intn(3))*5e8)}
		t = int64(it.EndAt)
		if r.Bool() {
			it.InlineStyle = &astisub.StyleAttributes{WebVTTAlign: "left", TTMLTextAlign: sp("left")}
		}
		d := fmt.Sprintf("cue%d", k)
		if ns > 0 && r.P(1, 3) {
			it.Style = styles[r.Intn(ns)]
			d += ":" + it.Style.ID
		}
		if nr > 0 && r.P(1, 3) {
			it.Region = regions[r.Intn(nr)]
			d += ":" + it.Region.ID
			if it.InlineStyle == nil {
				it.InlineStyle = &astisub.StyleAttributes{}
			}
		}
		for l := 0; l < r.Range(1, 2); l++ {
			line := astisub.Line{}
			if r.P(1, 3) {
				line.VoiceName = "Voice"
			}
			for m := 0; m < r.Range(1, 3); m++ {
				li := astisub.LineItem{Text: fmt.Sprintf("w%d%d%d", k, l, m)}
				if (k+l+m)%4 == 3 {
					li.StartAt = time.Duration(k)*time.Second + time.Duration(m+1)*100*time.Millisecond // an inline timestamp
				}
				if ns > 0 && r.P(1, 4) {
					li.Style = styles[r.Intn(ns)]
					d += "/" + li.Style.ID
				}
				if r.P(1, 4) {
					li.InlineStyle = &astisub.StyleAttributes{TTMLFontStyle: sp("italic"), SRTItalics: true}
				}
				line.Items = append(line.Items, li)
			}
			it.Lines = append(it.Lines, line)
		}
		desc = append(desc, d)
		s.Items = append(s.Items, it)
	}
	return c13Model{s, fmt.Sprintf("styles=%d regions=%d %s", ns, nr, strings.Join(desc, " "))}
}

// reachability on identifiers: roots = cue.Region, cue.Style, run.Style; edges region -> style, style -> parent
func c13Reach(s *astisub.Subtitles) (regions, styles map[string]bool) {
	regions, styles = map[string]bool{}, map[string]bool{}
	var markStyle func(id string)
	markStyle = func(id string) {
		if styles[id] {
			return
		}
		styles[id] = true
		if def, ok := s.Styles[id]; ok && def.Style != nil {
			markStyle(def.Style.ID)
		}
	}
	for _, it := range s.Items {
		if it.Style != nil {
			markStyle(it.Style.ID)
		}
		if it.Region != nil {
			regions[it.Region.ID] = true
		}
		for _, l := range it.Lines {
			for _, li := range l.Items {
				if li.Style != nil {
					markStyle(li.Style.ID)
				}
			}
		}
	}
	for id := range regions {
		if def, ok := s.Regions[id]; ok && def.Style != nil {
			markStyle(def.Style.ID)
		}
	}
	return
}

func keysOf[T any](m map[string]T) string {
	var ks []string
	for k := range m {
		ks = append(ks, k)
	}
	sort.Strings(ks)
	return strings.Join(ks, ",")
}

func trueKeys(m map[string]bool, defined func(string) bool) string {
	var ks []string
	for k, v := range m {
		if v && defined(k) {
			ks = append(ks, k)
		}
	}
	sort.Strings(ks)
	return strings.Join(ks, ",")
}

type c13Writer struct {
	name  string
	write func(s astisub.Subtitles, b *bytes.Buffer) error
	read  func(b []byte) (*astisub.Subtitles, error)
}

var c13Writers = []c13Writer{
	{"ttml", func(s astisub.Subtitles, b *bytes.Buffer) error { return s.WriteToTTML(b) }, func(b []byte) (*astisub.Subtitles, error) { return astisub.ReadFromTTML(bytes.NewReader(b)) }},
	{"webvtt", func(s astisub.Subtitles, b *bytes.Buffer) error { return s.WriteToWebVTT(b) }, func(b []byte) (*astisub.Subtitles, error) { return astisub.ReadFromWebVTT(bytes.NewReader(b)) }},
	{"ssa", func(s astisub.Subtitles, b *bytes.Buffer) error { return s.WriteToSSA(b) }, func(b []byte) (*astisub.Subtitles, error) { return astisub.ReadFromSSA(bytes.NewReader(b)) }},
	{"srt", func(s astisub.Subtitles, b *bytes.Buffer) error { return s.WriteToSRT(b) }, func(b []byte) (*astisub.Subtitles, error) { return astisub.ReadFromSRT(bytes.NewReader(b)) }},
	{"stl", func(s astisub.Subtitles, b *bytes.Buffer) error { return s.WriteToSTL(b) }, func(b []byte) (*astisub.Subtitles, error) {
		return astisub.ReadFromSTL(bytes.NewReader(b), astisub.STLOptions{})
	}},
}

func c13RoundTrip(w c13Writer, s *astisub.Subtitles) (cues string, err error) {
	var b bytes.Buffer
	var got *astisub.Subtitles
	if p := guard(func() {
		if err = w.write(*s, &b); err == nil {
			got, err = w.read(b.Bytes())
		}
	}); p != "" {
		return "", fmt.Errorf("%s", p)
	}
	if err != nil {
		return "", err
	}
	var parts []string
	for _, it := range got.Items {
		t := strings.Join(strings.Fields(itemText(it)), "")
		parts = append(parts, fmt.Sprintf("[%d,%d)%s", it.StartAt, it.EndAt, t))
	}
	return strings.Join(parts, " "), nil
}

func c13Check(c *fw.Ctx, m c13Model, key uint64) fw.Outcome {
	s := m.sub
	// snapshot of the cues
	snaps := make([]string, len(s.Items))
	for k, it := range s.Items {
		snaps[k] = fmt.Sprintf("%d %d %s", it.StartAt, it.EndAt, snapItem(it))
	}
	ptrs := append([]*astisub.Item(nil), s.Items...)
	wantR, wantS := c13Reach(s)
	expR := trueKeys(wantR, func(id string) bool { _, ok := s.Regions[id]; return ok })
	expS := trueKeys(wantS, func(id string) bool { _, ok := s.Styles[id]; return ok })
	if len(s.Items) == 0 {
		expR, expS = keysOf(s.Regions), keysOf(s.Styles) // an empty list is left alone
	}
	// round trips before optimising
	before := map[string]string{}
	for _, w := range c13Writers {
		if len(s.Items) == 0 {
			break
		}
		if cues, err := c13RoundTrip(w, s); err == nil {
			before[w.name] = cues
		}
	}
	defR, defS := map[string]*astisub.Region{}, map[string]*astisub.Style{}
	for k, v := range s.Regions {
		defR[k] = v
	}
	for k, v := range s.Styles {
		defS[k] = v
	}
	if p := guard(func() { s.Optimize() }); p != "" {
		return fw.Bad(key, m.desc, "Optimize: %s", p)
	}
	if got := keysOf(s.Regions); got != expR {
		return fw.Bad(key, m.desc, "Optimize on {%s}: regions left = {%s}, reachable = {%s}", m.desc, got, expR)
	}
	if got := keysOf(s.Styles); got != expS {
		return fw.Bad(key, m.desc, "Optimize on {%s}: styles left = {%s}, reachable = {%s}", m.desc, got, expS)
	}
	for k, v := range s.Regions {
		if defR[k] != v {
			return fw.Bad(key, m.desc, "Optimize replaced the definition of region %s", k)
		}
	}
	for k, v := range s.Styles {
		if defS[k] != v {
			return fw.Bad(key, m.desc, "Optimize replaced the definition of style %s", k)
		}
	}
	if !samePtrs(s.Items, ptrs) {
		return fw.Bad(key, m.desc, "Optimize changed the cue list")
	}
	for k, it := range s.Items {
		if snaps[k] != fmt.Sprintf("%d %d %s", it.StartAt, it.EndAt, snapItem(it)) {
			return fw.Bad(key, m.desc, "Optimize changed cue %d", k)
		}
	}
	// every reference left resolves
	resolve := func(st *astisub.Style, from string) string {
		// references resolve through identifiers: the definition is the one stored under the ID
		seen := map[string]bool{}
		for st != nil && !seen[st.ID] {
			seen[st.ID] = true
			def := s.Styles[st.ID]
			if def == nil {
				return fmt.Sprintf("style %s referenced from %s is no longer defined", st.ID, from)
			}
			st = def.Style
		}
		return ""
	}
	if len(s.Items) > 0 {
		for k, it := range s.Items {
			if msg := resolve(it.Style, fmt.Sprintf("cue %d", k)); msg != "" {
				return fw.Bad(key, m.desc, "after Optimize on {%s}: %s", m.desc, msg)
			}
			if it.Region != nil {
				if s.Regions[it.Region.ID] == nil {
					return fw.Bad(key, m.desc, "after Optimize on {%s}: region %s of cue %d is no longer defined", m.desc, it.Region.ID, k)
				}
				// the region's definition is the one stored under its identifier
				if msg := resolve(s.Regions[it.Region.ID].Style, "region "+it.Region.ID); msg != "" {
					return fw.Bad(key, m.desc, "after Optimize on {%s}: %s", m.desc, msg)
				}
			}
			for _, l := range it.Lines {
				for _, li := range l.Items {
					if msg := resolve(li.Style, fmt.Sprintf("a run of cue %d", k)); msg != "" {
						return fw.Bad(key, m.desc, "after Optimize on {%s}: %s", m.desc, msg)
					}
				}
			}
		}
	}
	// idempotent
	r1, s1 := keysOf(s.Regions), keysOf(s.Styles)
	if p := guard(func() { s.Optimize() }); p != "" {
		return fw.Bad(key, m.desc, "second Optimize: %s", p)
	}
	if keysOf(s.Regions) != r1 || keysOf(s.Styles) != s1 {
		return fw.Bad(key, m.desc, "Optimize is not idempotent on {%s}", m.desc)
	}
	// still writable to every format, and reads back with the same cues as before
	for _, w := range c13Writers {
		b, ok := before[w.name]
		if !ok {
			continue
		}
		after, err := c13RoundTrip(w, s)
		if err != nil {
			return fw.Bad(key, m.desc, "after Optimize on {%s} the list can no longer be written to / read back from %s: %v", m.desc, w.name, err)
		}
		if after != b {
			return fw.Bad(key, m.desc, "after Optimize on {%s} the %s round trip gives %s instead of %s", m.desc, w.name, after, b)
		}
		c.Count("roundtrips_"+w.name, 1)
	}

	// RemoveStyling on a fresh copy of the same model is checked by the caller
	return fw.OK(key, m.desc)
}

func c13RemoveStyling(m c13Model, key uint64) fw.Outcome {
	s := m.sub
	type runSnap struct {
		text string
		at   time.Duration
	}
	type cueSnap struct {
		s, e     time.Duration
		voices   []string
		runs     [][]runSnap
		index    int
		comments string
	}
	var before []cueSnap
	for _, it := range s.Items {
		cs := cueSnap{s: it.StartAt, e: it.EndAt, index: it.Index, comments: fmt.Sprint(it.Comments)}
		for _, l := range it.Lines {
			cs.voices = append(cs.voices, l.VoiceName)
			var rs []runSnap
			for _, li := range l.Items {
				rs = append(rs, runSnap{li.Text, li.StartAt})
			}
			cs.runs = append(cs.runs, rs)
		}
		before = append(before, cs)
	}
	ptrs := append([]*astisub.Item(nil), s.Items...)
	if p := guard(func() { s.RemoveStyling() }); p != "" {
		return fw.Bad(key, m.desc, "RemoveStyling: %s", p)
	}
	if !samePtrs(s.Items, ptrs) {
		return fw.Bad(key, m.desc, "RemoveStyling changed the cue list or its order")
	}
	if len(s.Regions) != 0 || len(s.Styles) != 0 {
		return fw.Bad(key, m.desc, "RemoveStyling left %d regions and %d styles", len(s.Regions), len(s.Styles))
	}
	for k, it := range s.Items {
		b := before[k]
		if it.StartAt != b.s || it.EndAt != b.e || it.Index != b.index || fmt.Sprint(it.Comments) != b.comments || len(it.Lines) != len(b.runs) {
			return fw.Bad(key, m.desc, "RemoveStyling changed timing/lines of cue %d", k)
		}
		if it.Region != nil || it.Style != nil || it.InlineStyle != nil {
			return fw.Bad(key, m.desc, "RemoveStyling on {%s}: cue %d still has a region, style or inline attributes", m.desc, k)
		}
		for l, line := range it.Lines {
			if line.VoiceName != b.voices[l] || len(line.Items) != len(b.runs[l]) {
				return fw.Bad(key, m.desc, "RemoveStyling changed voice name or runs of cue %d line %d", k, l)
			}
			for n, li := range line.Items {
				if li.Text != b.runs[l][n].text || li.StartAt != b.runs[l][n].at {
					return fw.Bad(key, m.desc, "RemoveStyling changed the text or the inline timestamp of cue %d line %d run %d: %q at %v, was %q at %v", k, l, n, li.Text, li.StartAt, b.runs[l][n].text, b.runs[l][n].at)
				}
				if li.Style != nil || li.InlineStyle != nil {
					return fw.Bad(key, m.desc, "RemoveStyling on {%s}: cue %d line %d run %d still has a style or inline attributes", m.desc, k, l, n)
				}
			}
		}
	}
	// stripping again after a styled list was merged in must strip again, and must not touch other stripped lists
	witness := astisub.NewSubtitles()
	witness.RemoveStyling()
	styled := astisub.NewSubtitles()
	styled.Styles["zz"] = &astisub.Style{ID: "zz", InlineStyle: &astisub.StyleAttributes{}}
	styled.Regions["zr"] = &astisub.Region{ID: "zr", InlineStyle: &astisub.StyleAttributes{}}
	styled.Items = []*astisub.Item{{StartAt: time.Second, EndAt: 2 * time.Second, Style: styled.Styles["zz"], Region: styled.Regions["zr"], Lines: []astisub.Line{{Items: []astisub.LineItem{{Text: "x", Style: styled.Styles["zz"]}}}}}}
	if p := guard(func() { s.Merge(styled); s.RemoveStyling() }); p != "" {
		return fw.Bad(key, m.desc, "RemoveStyling, Merge, RemoveStyling: %s", p)
	}
	if len(s.Regions) != 0 || len(s.Styles) != 0 || len(witness.Regions) != 0 || len(witness.Styles) != 0 {
		return fw.Bad(key, m.desc, "after RemoveStyling, Merge of a styled list and RemoveStyling again: %d regions / %d styles left in the list, %d / %d appeared in another stripped list", len(s.Regions), len(s.Styles), len(witness.Regions), len(witness.Styles))
	}
	for _, it := range s.Items {
		if it.Region != nil || it.Style != nil {
			return fw.Bad(key, m.desc, "RemoveStyling after a Merge left a region or style on a cue")
		}
	}
	return fw.OK(key, nil)
}

// c13Clash merges two lists that define the same identifier X with different ancestries: the receiver's definition wins,
// so what is reachable through X is the receiver's chain, whatever the merged list's own objects point at
func c13Clash(r *fw.Rand) c13Model {
	mk := func(id string, parent *astisub.Style) *astisub.Style {
		return &astisub.Style{ID: id, InlineStyle: &astisub.StyleAttributes{TTMLColor: sp("#" + id)}, Style: parent}
	}
	a, b := astisub.NewSubtitles(), astisub.NewSubtitles()
	var desc []string
	// receiver: X <- a1 <- a2 ... (X's ancestors exist only in A), plus a cue that does not use X
	var parent *astisub.Style
	for k := r.Range(1, 3); k >= 1; k-- {
		parent = mk(fmt.Sprintf("a%d", k), parent)
		a.Styles[parent.ID] = parent
	}
	xa := mk("X", parent)
	a.Styles["X"] = xa
	a.Items = append(a.Items, textItem(time.Second, 2*time.Second, "plain"))
	if r.Bool() {
		a.Items[0].Style = xa
		desc = append(desc, "A.cue:X")
	}
	// merged list: its own X (no parent, or a chain of its own), E <- X, and a cue reaching E
	parent = nil
	for k := r.Intn(3); k >= 1; k-- {
		parent = mk(fmt.Sprintf("b%d", k), parent)
		b.Styles[parent.ID] = parent
	}
	xb := mk("X", parent)
	b.Styles["X"] = xb
	e := mk("E", xb)
	b.Styles["E"] = e
	it := textItem(3*time.Second, 4*time.Second, "styled")
	switch r.Intn(3) {
	case 0:
		it.Style = e
		desc = append(desc, "B.cue:E")
	case 1:
		it.Lines[0].Items[0].Style = e
		desc = append(desc, "B.run:E")
	default:
		rg := &astisub.Region{ID: "R", InlineStyle: &astisub.StyleAttributes{}, Style: e}
		b.Regions["R"] = rg
		it.Region = rg
		it.InlineStyle = &astisub.StyleAttributes{}
		desc = append(desc, "B.cue:R>E")
	}
	b.Items = append(b.Items, it)
	for k := 0; k < r.Intn(3); k++ {
		u := mk(fmt.Sprintf("unused%d", k), nil)
		b.Styles[u.ID] = u
	}
	a.Merge(b)
	return c13Model{a, fmt.Sprintf("clash on X: A{%s} + B{%s} %s", keysOf(a.Styles), keysOf(b.Styles), strings.Join(desc, " "))}
}

// c13Parsed obtains graphs by writing a random model to a format and parsing it back (reader-built graphs)
func c13Parsed(r *fw.Rand) (c13Model, bool) {
	m := c13Random(r)
	if len(m.sub.Items) == 0 {
		return m, false
	}
	w := c13Writers[r.Intn(3)]
	var b bytes.Buffer
	var got *astisub.Subtitles
	var err error
	if p := guard(func() {
		if err = w.write(*m.sub, &b); err == nil {
			got, err = w.read(b.Bytes())
		}
	}); p != "" || err != nil {
		return m, false
	}
	return c13Model{got, "parsed from " + w.name + ": " + m.desc}, true
}

// c13Document obtains a graph by parsing a ground-truth document of the codec checks (WebVTT with STYLE blocks and
// regions, TTML with style chains, SSA, STL, teletext): whatever the readers build, only what a cue can reach stays
func c13Document(r *fw.Rand) (c13Model, bool) {
	format := fw.Pick(r, []string{"webvtt", "webvtt", "ttml", "ttml", "ssa", "stl", "srt", "teletext"})
	d := genDoc(r, format, false)
	var got *astisub.Subtitles
	var err error
	if p := guard(func() { got, err = d.Read(bytes.NewReader(d.Data)) }); p != "" || err != nil || got == nil || len(got.Items) == 0 {
		return c13Model{}, false
	}
	doc := string(d.Data)
	if format == "stl" || format == "teletext" {
		doc = fmt.Sprintf("%x", d.Data)
	}
	return c13Model{got, fmt.Sprintf("parsed from a %s document (styles {%s} regions {%s}): %s", format, keysOf(got.Styles), keysOf(got.Regions), trunc(doc, 1500))}, true
}

func c13CLI(c *fw.Ctx) fw.Outcome {
	m := c13Random(c.R)
	if len(m.sub.Items) == 0 {
		return fw.Skip()
	}
	key := fw.HashString(m.desc) ^ 0xc13
	in := filepath.Join(c.TmpDir(), "in.ttml")
	out := filepath.Join(c.TmpDir(), "out.ttml")
	f, _ := os.Create(in)
	err := m.sub.WriteToTTML(f)
	f.Close()
	out = outPath(c.R, in, out)
	if err != nil {
		return fw.Skip()
	}
	src, err := astisub.OpenFile(in)
	if err != nil {
		return fw.Skip()
	}
	wantR, wantS := c13Reach(src)
	msg, err := cli("optimize", "-i", in, "-o", out)
	if err != nil {
		return fw.Bad(key, m.desc, "CLI optimize on {%s} failed: %v %s", m.desc, err, msg)
	}
	got, err := astisub.OpenFile(out)
	if err != nil {
		return fw.Bad(key, m.desc, "CLI optimize on {%s}: output unreadable: %v", m.desc, err)
	}
	expR := trueKeys(wantR, func(id string) bool { _, ok := src.Regions[id]; return ok })
	expS := trueKeys(wantS, func(id string) bool { _, ok := src.Styles[id]; return ok })
	if keysOf(got.Regions) != expR || keysOf(got.Styles) != expS {
		return fw.Bad(key, m.desc, "CLI optimize on {%s}: regions {%s} styles {%s}, reachable {%s} {%s}", m.desc, keysOf(got.Regions), keysOf(got.Styles), expR, expS)
	}
	if a, b := fmtCues(cuesOf(src.Items)), fmtCues(cuesOf(got.Items)); a != b {
		return fw.Bad(key, m.desc, "CLI optimize changed the cues: %s -> %s", a, b)
	}
	c.Count("cli_optimize_runs", 1)
	return fw.OK(key, "cli optimize: "+m.desc)
}

func init() {
	libN := func(tier string) int64 { return tierN(tier, 12000, 1200000) }
	cliN := func(tier string) int64 { return tierN(tier, 96, 1000) }
	fw.Register(&fw.Property{
		ID:          "C13",
		Level:       "exploration",
		Rule:        "case = a cue list with a random reference graph (0..6 styles whose parents form a forest with chains up to depth 5, 0..4 regions optionally styled, cues/runs referencing them, unused and shared definitions; every third case is such a list written to TTML/WebVTT/SSA and parsed back, so the graph is the reader's). Oracle: harness-side reachability on identifiers = exactly the definitions left by Optimize; cues untouched (identity + snapshot); every remaining reference resolves; idempotent; the optimised list round-trips through all five writers+readers with the same cues as before. RemoveStyling: timing, run texts, voice names, order unchanged and no region/style/inline attribute left anywhere. CLI: 'astisub optimize' on TTML. distinct_nontrivial = distinct graphs compared.",
		Assumptions: []string{"map keys equal the definitions' ids and references point at the objects stored in the maps"},
		Cases:       func(tier string) int64 { return libN(tier) + cliN(tier) },
		Anchors:     []string{"Subtitles.Optimize", "Subtitles.removeUnusedRegionsAndStyles", "Subtitles.RemoveStyling", "astisub/main.go optimize"},
		Run: func(c *fw.Ctx) fw.Outcome {
			if c.Idx >= libN(c.Tier) {
				if !haveCLI() {
					return fw.Skip()
				}
				c.Feature("cli optimize")
				return c13CLI(c)
			}
			seed := c.R.U64()
			build := func() (c13Model, bool) {
				r := fw.NewRand(seed)
				if c.Idx%3 == 2 {
					if c.Idx%2 == 0 {
						return c13Document(r)
					}
					return c13Parsed(r)
				}
				if c.Idx%8 == 5 {
					return c13Clash(r), true
				}
				if c.Idx%8 == 1 {
					// a list built by merging two lists that define the same identifiers with different parents
					a, b := c13Random(r), c13Random(r)
					a.sub.Merge(b.sub)
					return c13Model{a.sub, "merged {" + a.desc + "} + {" + b.desc + "}"}, true
				}
				if c.Idx%500 == 7 {
					// one definition referenced by exactly 256 (or 512) cues
					m := c13Random(r)
					if len(m.sub.Styles) > 0 && len(m.sub.Items) > 0 {
						var st *astisub.Style
						for _, v := range m.sub.Styles {
							st = v
							break
						}
						n := fw.Pick(r, []int{256, 512})
						m.sub.Items = m.sub.Items[:0]
						for k := 0; k < n; k++ {
							it := textItem(time.Duration(k)*time.Second, time.Duration(k+1)*time.Second, "x")
							it.Style = st
							if len(m.sub.Regions) > 0 {
								for _, rg := range m.sub.Regions {
									if it.Region == nil || rg.ID < it.Region.ID {
										it.Region = rg
									}
								}
							}
							m.sub.Items = append(m.sub.Items, it)
						}
						m.desc = fmt.Sprintf("%d cues all referencing %s: %s", n, st.ID, m.desc)
					}
					return m, true
				}
				return c13Random(r), true
			}
			m, ok := build()
			if !ok {
				return fw.Skip()
			}
			key := fw.HashString(m.desc)
			c.Feature(fmt.Sprintf("parsed=%v styles=%d regions=%d cues=%d", c.Idx%3 == 2, len(m.sub.Styles), len(m.sub.Regions), len(m.sub.Items)))
			if o := c13Check(c, m, key); o.Status != fw.Held {
				return o
			}
			m2, _ := build()
			if o := c13RemoveStyling(m2, key); o.Status != fw.Held {
				return o
			}
			return fw.OK(key, m.desc)
		},
	})
}
