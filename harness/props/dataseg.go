package props

import (
	"crypto/sha256"
	"debug/elf"
	"encoding/hex"
	"fmt"
	"os"
	"sort"
	"strings"
	"sync"

	"verif/harness/fw"
)

// Data-segment monitor: a digest over every package-level variable of the library as the linker laid it out in this
// very binary (.data, .noptrdata, .bss, .noptrbss symbols whose name starts with the library's import path, which
// includes the compiler's static temporaries holding the backing arrays of composite literals). Unlike the
// VerifStateDigest hook, which serialises the tables somebody listed, this needs no list: a package-level variable
// that a later change introduces is covered the day it is linked in. It is shallow (heap objects behind a pointer are
// not followed - the hook covers the known maps deeply), which is exactly what catches a slice, counter, flag, cache
// pointer or shared backing array that a call leaves modified.
//
// The memory is read through /proc/self/mem, so neither the race detector nor checkptr has anything to say about it.

const datasegPrefix = "github.com/asticode/go-astisub."

type datasegSym struct {
	name string
	addr uint64
	size uint64
}

var (
	datasegOnce sync.Once
	datasegSyms []datasegSym
	datasegErr  error
)

// symbols that are documented or inherently mutable: the injectable clock
var datasegExempt = map[string]bool{
	datasegPrefix + "Now": true,
}

func datasegLoad() {
	f, err := elf.Open("/proc/self/exe")
	if err != nil {
		datasegErr = err
		return
	}
	defer f.Close()
	if f.Type != elf.ET_EXEC {
		datasegErr = fmt.Errorf("binary is of type %v: symbol values are not load addresses", f.Type)
		return
	}
	syms, err := f.Symbols()
	if err != nil {
		datasegErr = err
		return
	}
	want := map[string]bool{".data": true, ".noptrdata": true, ".bss": true, ".noptrbss": true}
	for _, s := range syms {
		if s.Size == 0 || !strings.HasPrefix(s.Name, datasegPrefix) || int(s.Section) >= len(f.Sections) || s.Section == elf.SHN_UNDEF {
			continue
		}
		if !want[f.Sections[s.Section].Name] || datasegExempt[s.Name] {
			continue
		}
		// initialisation guards and the compiler's own run-time caches (type-assertion and interface-switch caches
		// are filled in by the runtime on first use) are not variables of the library
		if strings.HasSuffix(s.Name, ".initdone.") || strings.Contains(s.Name, "..inittask") || strings.Contains(s.Name, "..typeAssert") || strings.Contains(s.Name, "..interfaceSwitch") {
			continue
		}
		datasegSyms = append(datasegSyms, datasegSym{s.Name, s.Value, s.Size})
	}
	sort.Slice(datasegSyms, func(i, j int) bool { return datasegSyms[i].name < datasegSyms[j].name })
	if len(datasegSyms) == 0 {
		datasegErr = fmt.Errorf("no data symbols of %s found (stripped binary?)", datasegPrefix)
	}
}

// datasegSnapshot returns name -> hash of the current bytes of every package-level variable of the library
func datasegSnapshot() (map[string]string, error) {
	datasegOnce.Do(datasegLoad)
	if datasegErr != nil {
		return nil, datasegErr
	}
	mem, err := os.Open("/proc/self/mem")
	if err != nil {
		return nil, err
	}
	defer mem.Close()
	out := make(map[string]string, len(datasegSyms))
	for _, s := range datasegSyms {
		buf := make([]byte, s.size)
		if _, err := mem.ReadAt(buf, int64(s.addr)); err != nil {
			return nil, fmt.Errorf("reading %s at %#x: %v", s.name, s.addr, err)
		}
		h := sha256.Sum256(buf)
		out[s.name] = hex.EncodeToString(h[:8])
	}
	return out, nil
}

// datasegDiff names the variables whose bytes differ between two snapshots
func datasegDiff(a, b map[string]string) []string {
	var d []string
	for k, v := range a {
		if b[k] != v {
			d = append(d, strings.TrimPrefix(k, datasegPrefix))
		}
	}
	sort.Strings(d)
	return d
}

var datasegBase, deepBase map[string]string

// datasegMark takes the baseline at worker set-up, before the first call into the library (a warm-up would hide
// exactly the one-way changes - a table patched on first use and never restored - that matter most)
func datasegMark() {
	datasegBase, _ = datasegSnapshot()
	deepBase, _ = deepSnapshot()
}

// datasegVerdict compares with the baseline at the end of a worker: the outcome names the variables that changed
func datasegVerdict(what string) fw.Outcome {
	now, err := datasegSnapshot()
	deep, derr := deepSnapshot()
	if err != nil || derr != nil || datasegBase == nil || deepBase == nil {
		return fw.Outcome{Status: fw.Trivial, Detail: fmt.Sprintf("data-segment monitor not available: %v %v", err, derr)}
	}
	d := datasegDiff(datasegBase, now)
	for _, x := range datasegDiff(deepBase, deep) {
		d = append(d, x+" (through what it refers to)")
	}
	if len(d) > 0 {
		return fw.Bad(3, nil, "package-level variables of the library changed %s: %s (the only documented mutable package state is the injectable clock Now): a call left state behind that later calls can observe", what, strings.Join(d, ", "))
	}
	return fw.OK(fw.HashString(fmt.Sprint(len(now), len(deep)))^0xda7a, fmt.Sprintf("data segment: %d package-level symbols of the library unchanged byte for byte, %d variables unchanged through slices, strings, pointers, structs and arrays", len(now), len(deep)))
}
