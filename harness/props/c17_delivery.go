package props

import (
	"bufio"
	"bytes"
	"fmt"
	"io"
	"os"
	"regexp"
	"path/filepath"
	"reflect"
	"sort"
	"strings"
	"testing/iotest"
	"time"

	astisub "github.com/asticode/go-astisub"
	"verif/harness/fw"
)

// C17 Parse result does not depend on how the reader delivers the bytes.

// schedReader delivers data in chunks that end at the given cut positions; it logs what it did
type schedReader struct {
	data        []byte
	pos         int
	cuts        []int // sorted positions at which a read stops
	eofWithData bool  // the last bytes are returned together with io.EOF
	zeroAt      map[int]int
	zeroLeft    map[int]int
	reads       int
	delivered   int
	zeros       int
	seeks       int
}

func (s *schedReader) Read(p []byte) (int, error) {
	s.reads++
	if len(p) == 0 {
		return 0, nil
	}
	if s.pos >= len(s.data) {
		return 0, io.EOF
	}
	if s.zeroLeft[s.pos] > 0 {
		s.zeroLeft[s.pos]--
		s.zeros++
		return 0, nil
	}
	end := len(s.data)
	if i := sort.SearchInts(s.cuts, s.pos+1); i < len(s.cuts) {
		end = s.cuts[i]
	}
	n := end - s.pos
	if n > len(p) {
		n = len(p)
	}
	copy(p, s.data[s.pos:s.pos+n])
	s.pos += n
	s.delivered += n
	if s.pos == len(s.data) && s.eofWithData {
		return n, io.EOF
	}
	return n, nil
}

func (s *schedReader) Seek(off int64, whence int) (int64, error) {
	s.seeks++
	switch whence {
	case io.SeekStart:
		s.pos = int(off)
	case io.SeekCurrent:
		s.pos += int(off)
	case io.SeekEnd:
		s.pos = len(s.data) + int(off)
	}
	s.zeroLeft = map[int]int{}
	for k, v := range s.zeroAt {
		s.zeroLeft[k] = v
	}
	return int64(s.pos), nil
}

func newSched(data []byte, cuts []int, eofWithData bool, zeroAt map[int]int) *schedReader {
	s := &schedReader{data: data, cuts: cuts, eofWithData: eofWithData, zeroAt: zeroAt, zeroLeft: map[int]int{}}
	for k, v := range zeroAt {
		s.zeroLeft[k] = v
	}
	return s
}

type parseResult struct {
	sub    *astisub.Subtitles
	failed bool
	panic  string
}

func runRead(d corpusDoc, rd io.Reader) parseResult {
	var res parseResult
	var err error
	res.panic = guard(func() { res.sub, err = d.Read(rd) })
	res.failed = err != nil
	return res
}

func sameResult(a, b parseResult) bool {
	if a.panic != "" || b.panic != "" {
		return a.panic != "" && b.panic != ""
	}
	if a.failed || b.failed {
		return a.failed == b.failed
	}
	return reflect.DeepEqual(a.sub, b.sub)
}

func describeResult(p parseResult) string {
	switch {
	case p.panic != "":
		return "panic " + trunc(p.panic, 200)
	case p.failed:
		return "error"
	case p.sub == nil:
		return "nil"
	}
	return fmt.Sprintf("%d cues %s", len(p.sub.Items), trunc(fmtCues(cuesOf(p.sub.Items)), 300))
}

// mutateDoc makes an invalid (or at least different) document out of a valid one
func mutateDoc(r *fw.Rand, b []byte) []byte {
	if len(b) == 0 {
		return b
	}
	c := append([]byte(nil), b...)
	switch r.Intn(4) {
	case 0:
		return c[:r.Intn(len(c))]
	case 1:
		c[r.Intn(len(c))] ^= byte(1 << uint(r.Intn(8)))
	case 2:
		i, j := r.Intn(len(c)), r.Intn(len(c))
		if i > j {
			i, j = j, i
		}
		return append(c[:i], c[j:]...)
	default:
		i := r.Intn(len(c))
		return append(c[:i], append([]byte("\r"), c[i:]...)...)
	}
	return c
}

// bigDoc builds a document of roughly 200 KiB
func bigDoc(r *fw.Rand, format string) corpusDoc {
	d := genDoc(r, format, false)
	switch format {
	case "srt":
		o := srtGenRender(r)
		o.bom = false
		d.Data = srtRenderDoc(srtGenModelN(r, 1800), o, r)
	case "webvtt":
		m := vttGenModel(r, false)
		m.Regions = nil
		for len(m.Cues) < 1500 {
			x := vttGenModel(r, false)
			for _, cu := range x.Cues {
				cu.Region = ""
				m.Cues = append(m.Cues, cu)
			}
		}
		for k := range m.Cues {
			m.Cues[k].Region = ""
		}
		d.Data = vttRenderDoc(m, vttGenRender(r), r)
	case "ttml":
		m := ttmlGenModel(r, false)
		for len(m.Cues) < 700 {
			x := ttmlGenModel(r, false)
			x.FrameRate, x.TickRate = m.FrameRate, m.TickRate
			for _, cu := range x.Cues {
				cu.Style, cu.Region = "", ""
				for li := range cu.Lines {
					for ri := range cu.Lines[li] {
						cu.Lines[li][ri].Style = ""
					}
				}
				if (m.FrameRate == 0 && (len(cu.Begin.Expr) > 0 && (cu.Begin.Expr[len(cu.Begin.Expr)-1] == 'f' || countByte(cu.Begin.Expr, ':') == 3))) ||
					(m.FrameRate == 0 && (cu.End.Expr[len(cu.End.Expr)-1] == 'f' || countByte(cu.End.Expr, ':') == 3)) ||
					(m.TickRate == 0 && (cu.Begin.Expr[len(cu.Begin.Expr)-1] == 't' || cu.End.Expr[len(cu.End.Expr)-1] == 't')) {
					continue
				}
				m.Cues = append(m.Cues, cu)
			}
		}
		d.Data = ttmlRenderDoc(m, ttmlGenRender(r), r)
	case "ssa":
		m := ssaGenModel(r, false)
		for len(m.Events) < 2000 {
			x := ssaGenModel(r, false)
			for _, e := range x.Events {
				e.Style, e.styleRef = "", ""
				m.Events = append(m.Events, e)
			}
			if len(x.Events) == 0 {
				m.Events = append(m.Events, ssaEvent{Start: 1, End: 2, Lines: [][]ssaTok{{{Text: "x"}}}})
			}
		}
		d.Data, _ = ssaRenderDoc(m, ssaGenRender(r, m.V4Plus), r)
	case "stl":
		m := stlGenModel(r, nil)
		for len(m.Cues) < 1600 {
			x := stlGenModel(r, nil)
			x.G = m.G
			for _, cu := range x.Cues {
				m.order = append(m.order, len(m.Cues))
				m.Cues = append(m.Cues, cu)
			}
			if len(x.Cues) == 0 {
				m.order = append(m.order, -1)
			}
		}
		// rows must be encoded for the display standard of the (single) GSI block: regenerate them
		for k := range m.Cues {
			tf, _ := stlGenRow(r, m.G.DSC, nil)
			if len(tf) > 100 {
				tf = tf[:100]
			}
			m.Cues[k].tf = tf
		}
		d.Data = stlEncodeDoc(m, r)
	case "teletext":
		var all []byte
		s := ttxGenStream(r)
		all = append(all, s.data...)
		d.Data = all
		for len(d.Data) < 200000 {
			x := ttxGenStream(r)
			d.Data = append(d.Data, x.data...) // further programmes appended: still a packet-aligned stream
		}
		d.Read = corpusReader(format, astisub.TeletextOptions{})
	}
	d.Origin = "generated-200KiB"
	return d
}

func countByte(s string, b byte) int {
	n := 0
	for i := 0; i < len(s); i++ {
		if s[i] == b {
			n++
		}
	}
	return n
}

func c17Doc(c *fw.Ctx) (corpusDoc, string) {
	format := corpusFormats[int(c.Idx)%len(corpusFormats)]
	variant := int(c.Idx/int64(len(corpusFormats))) % 8
	td := testdataDocs()
	switch {
	case variant == 5 && (format == "srt" || format == "webvtt" || format == "ssa"):
		// one text line of 4.5 KiB up to just under the scanner's 64 KiB limit, made of multi-byte characters: read
		// boundaries fall inside a character while the scanner is still looking for the end of the line
		unit := fw.Pick(c.R, []string{"é", "日本", "😀x", "ü—"})
		target := fw.Pick(c.R, []int{c.R.Range(4500, 9500), c.R.Range(4500, 9500), c.R.Range(16500, 20000), c.R.Range(33000, 40000), c.R.Range(60000, 63000)})
		if (c.Idx/int64(8*len(corpusFormats)))%2 == 1 {
			// every other long-line document is at or beyond what the scanner buffers: then every delivery fails alike
			target = fw.Pick(c.R, []int{c.R.Range(65000, 66500), c.R.Range(70000, 90000)})
		}
		long := strings.Repeat(unit, target/len(unit)+1)
		d := corpusDoc{Format: format, Ext: corpusExt[format], Read: corpusReader(format, astisub.TeletextOptions{}), Origin: "long multi-byte line"}
		switch format {
		case "srt":
			d.Data = []byte("1\n00:00:01,000 --> 00:00:02,000\nfirst\n\n2\n00:00:03,000 --> 00:00:04,000\n" + long + "\n\n3\n00:00:05,000 --> 00:00:06,000\nlast\n")
		case "webvtt":
			d.Data = []byte("WEBVTT\n\n00:00:01.000 --> 00:00:02.000\nfirst\n\n00:00:03.000 --> 00:00:04.000\n" + long + "\n\n00:00:05.000 --> 00:00:06.000\nlast\n")
		default:
			d.Data = []byte("[Script Info]\nTitle: t\n\n[Events]\nFormat: Start, End, Text\nDialogue: 0:00:01.00,0:00:02.00,first\nDialogue: 0:00:03.00,0:00:04.00," + long + "\nDialogue: 0:00:05.00,0:00:06.00,last\n")
		}
		return d, "longline"
	case variant == 5:
		// something follows the document proper: a tool signature or a second document after the root element of a
		// TTML file, an incomplete TTI block after an STL file, an incomplete packet after a transport stream
		d := genDoc(c.R, format, false)
		switch format {
		case "ttml":
			if (c.Idx/int64(8*len(corpusFormats)))%2 == 0 {
				// not a trailer but an HTML-ism inside: a named entity XML does not know. Whatever the reader makes of it
				// (an error, today), it makes it of every delivery
				if loc := regexp.MustCompile(`</([A-Za-z]+:)?p>`).FindIndex(d.Data); loc != nil {
					d.Data = append(append(append([]byte(nil), d.Data[:loc[0]]...), "&nbsp;&eacute;"...), d.Data[loc[0]:]...)
				}
				d.Origin = "generated, with an HTML entity"
				return d, "trailer"
			}
			d.Data = append(d.Data, fw.Pick(c.R, []string{"\n<!-- made with a tool -->\n", "\ntrailing text", "<tt/>", "\n\n" + string(d.Data), "\x00\x00", "\n<", strings.Repeat(" ", 5000) + "x"})...)
		default:
			extra := make([]byte, c.R.Range(1, 127))
			for i := range extra {
				extra[i] = byte(c.R.Intn(256))
			}
			d.Data = append(d.Data, extra...)
		}
		d.Origin = "generated, with a trailer"
		return d, "trailer"
	case variant == 7:
		return bigDoc(c.R, format), "big"
	case variant == 6:
		var own []corpusDoc
		for _, d := range td {
			if d.Format == format {
				own = append(own, d)
			}
		}
		if len(own) > 0 {
			return own[c.R.Intn(len(own))], "testdata"
		}
		return genDoc(c.R, format, false), "valid"
	case variant >= 4:
		d := genDoc(c.R, format, false)
		d.Data = mutateDoc(c.R, d.Data)
		d.Origin = "mutated"
		return d, "invalid"
	}
	ttxFarOdds = 1
	d := genDoc(c.R, format, variant == 3)
	ttxFarOdds = 3
	if (format == "srt" || format == "webvtt" || format == "ssa") && (variant == 1 || variant == 2) {
		d.Data = bytes.ReplaceAll(bytes.ReplaceAll(d.Data, []byte("\r\n"), []byte("\n")), []byte("\r"), []byte("\n"))
		d.Data = mixEOL(c.R, d.Data) // line ends of every kind in one document
		d.Origin += ", mixed line ends"
		if variant == 2 {
			// ... and CR CR LF, what a CRLF file becomes once a tool has written it again in text mode (whatever that
			// denotes, it denotes it under every delivery)
			d.Data = bytes.ReplaceAll(d.Data, []byte("\r\n"), []byte("\r\r\n"))
			d.Origin += ", CR CR LF"
		}
	}
	return d, "valid"
}

type c17SlowReader struct {
	r      io.Reader
	n      int
	paused bool
}

func (s *c17SlowReader) Read(p []byte) (int, error) {
	if s.n >= 1024 && !s.paused {
		s.paused = true
		time.Sleep(700 * time.Millisecond)
	}
	if len(p) > 376 {
		p = p[:376]
	}
	n, err := s.r.Read(p)
	s.n += n
	return n, err
}

func c17Run(c *fw.Ctx) fw.Outcome {
	d, variant := c17Doc(c)
	n := len(d.Data)
	key := fw.Mix(fw.HashBytes(d.Data), fw.HashString(d.Format))
	if d.Format == "teletext" && variant == "invalid" {
		// the third-party demultiplexer may itself never return on a damaged stream (seen: a corrupted VBI data
		// descriptor): such a stream is outside the property; find out under a watchdog before enumerating schedules
		done := make(chan struct{})
		go func() { c08WatchedCall(func() { runRead(d, newSched(d.Data, nil, false, nil)) }); close(done) }()
		select {
		case <-done:
		case <-time.After(20 * time.Second):
			c.Count("streams_on_which_the_demultiplexer_hangs_skipped", 1)
			return fw.Skip()
		}
	}
	ref := runRead(d, newSched(d.Data, nil, false, nil))
	if ref.panic != "" {
		// totality is C08's business; here only the dependence on delivery is decided
		c.Count("reference_panics", 1)
	}
	schedules := 0
	check := func(name string, cuts []int, eof bool, zero map[int]int) *fw.Outcome {
		s := newSched(d.Data, cuts, eof, zero)
		got := runRead(d, s)
		schedules++
		c.Count("reads_issued", int64(s.reads))
		c.Count("zero_length_reads_delivered", int64(s.zeros))
		if s.delivered < n && !got.failed && got.panic == "" && s.seeks == 0 && d.Format != "ttml" {
			// the reader stopped before the end of the stream although it succeeded: nothing to compare against, but worth counting
			c.Count("early_stop", 1)
		}
		if !sameResult(ref, got) {
			o := fw.Bad(key, fmt.Sprintf("%x", d.Data), "%s reader (%s document, %d bytes, %s): delivered all at once -> %s; delivered with schedule %s -> %s", d.Format, variant, n, d.Origin, describeResult(ref), name, describeResult(got))
			return &o
		}
		return nil
	}
	// every single split point (exhaustive up to 4 KiB, sampled beyond), plain and with the tail delivered with EOF
	var points []int
	if n <= 4096 {
		for k := 1; k < n; k++ {
			points = append(points, k)
		}
	} else {
		seen := map[int]bool{}
		add := func(k int) {
			if k > 0 && k < n && !seen[k] {
				seen[k] = true
				points = append(points, k)
			}
		}
		dense, random := 200, 150
		if n > 65536 {
			dense, random = 40, 30 // the big documents cost ~1 ms per parse
		}
		for k := 1; k < dense; k++ {
			add(k)
		}
		for _, base := range []int{4096, 8192, 65536, 131072} {
			for dlt := -4; dlt <= 4; dlt++ {
				add(base + dlt)
				add(n - base + dlt)
			}
		}
		for i := 0; i < random; i++ {
			add(c.R.Intn(n))
		}
		sort.Ints(points)
	}
	for _, k := range points {
		if o := check(fmt.Sprintf("split at %d", k), []int{k}, false, nil); o != nil {
			return *o
		}
		if k%5 == 0 || n-k < 200 {
			if o := check(fmt.Sprintf("split at %d, tail with EOF", k), []int{k}, true, nil); o != nil {
				return *o
			}
		}
	}
	c.Count("single_split_points", int64(len(points)))
	// all at once with EOF
	if o := check("all at once with EOF", nil, true, nil); o != nil {
		return *o
	}
	// one-byte reads (bounded on the big documents)
	if n <= 65536 {
		cuts := make([]int, 0, n)
		for k := 1; k < n; k++ {
			cuts = append(cuts, k)
		}
		if o := check("one byte at a time", cuts, false, nil); o != nil {
			return *o
		}
		if o := check("one byte at a time, last byte with EOF", cuts, true, nil); o != nil {
			return *o
		}
	}
	// halves, thirds, random chunk sequences, zero-length reads
	for _, parts := range []int{2, 3, 7} {
		var cuts []int
		for i := 1; i < parts; i++ {
			cuts = append(cuts, n*i/parts)
		}
		if o := check(fmt.Sprintf("%d equal parts", parts), cuts, false, nil); o != nil {
			return *o
		}
	}
	for i := 0; i < 6; i++ {
		var cuts []int
		maxChunk := fw.Pick(c.R, []int{2, 7, 64, 500, 4096, 5000})
		for p := 0; p < n; {
			p += 1 + c.R.Intn(maxChunk)
			if p < n {
				cuts = append(cuts, p)
			}
		}
		zero := map[int]int{}
		if i == 1 {
			zero[0] = 2 // the very first reads deliver nothing
		}
		if i%2 == 1 {
			for j := 0; j < 5 && n > 0; j++ {
				zero[c.R.Intn(n)] = c.R.Range(1, 2)
			}
		}
		if o := check(fmt.Sprintf("random chunks up to %d bytes, zero-length reads: %v", maxChunk, len(zero) > 0), cuts, i%3 == 0, zero); o != nil {
			return *o
		}
	}
	{
		// a hesitant source: over the first two KiB every chunk of 1..8 bytes is preceded by a read that delivers nothing
		// (never two in a row), then the rest in one piece
		var cuts []int
		zero := map[int]int{0: 1}
		for p := 0; p < n && p < 2200; {
			p += 1 + c.R.Intn(8)
			if p < n {
				cuts = append(cuts, p)
				zero[p] = 1
			}
		}
		if o := check("chunks of 1..8 bytes, each after a zero-length read", cuts, false, zero); o != nil {
			return *o
		}
	}
	if variant == "big" {
		var cuts []int
		for p := 4096; p < n; p += 4096 {
			cuts = append(cuts, p)
		}
		if o := check("4096-byte reads", cuts, false, nil); o != nil {
			return *o
		}
		cuts = nil
		for p := 4095; p < n; p += 4095 {
			cuts = append(cuts, p)
		}
		if o := check("4095-byte reads", cuts, false, nil); o != nil {
			return *o
		}
		cuts = nil
		for p := 65537; p < n; p += 65537 {
			cuts = append(cuts, p)
		}
		if o := check("65537-byte reads", cuts, true, nil); o != nil {
			return *o
		}
	}
	// the standard library's own reader types: which kind of reader hands over the bytes (one that knows its length,
	// one that is buffered, a file, a chain) must not matter any more than the chunking does
	tmp := filepath.Join(c.TmpDir(), "c17-doc")
	os.WriteFile(tmp, d.Data, 0o644)
	var file, file2 *os.File
	var pipes []*os.File
	defer func() {
		for _, p := range pipes {
			io.Copy(io.Discard, p) // let the writing side finish
			p.Close()
		}
		if file != nil {
			file.Close()
		}
		if file2 != nil {
			file2.Close()
		}
		os.Remove(tmp)
		os.Remove(tmp + ".off")
	}()
	kinds := []struct {
		name string
		mk   func() io.Reader
	}{
		{"bytes.Reader", func() io.Reader { return bytes.NewReader(d.Data) }},
		{"strings.Reader", func() io.Reader { return strings.NewReader(string(d.Data)) }},
		{"bytes.Buffer", func() io.Reader { return bytes.NewBuffer(append([]byte(nil), d.Data...)) }},
		{"bufio.Reader of 16 bytes", func() io.Reader { return bufio.NewReaderSize(newSched(d.Data, nil, false, nil), 16) }},
		{"bufio.Reader of 4096 bytes", func() io.Reader { return bufio.NewReader(newSched(d.Data, nil, false, nil)) }},
		{"bufio.Reader of 1 MiB", func() io.Reader { return bufio.NewReaderSize(bytes.NewReader(d.Data), 1<<20) }},
		{"os.File", func() io.Reader { file, _ = os.Open(tmp); return file }},
		{"io.MultiReader of two halves", func() io.Reader {
			return io.MultiReader(bytes.NewReader(d.Data[:n/2]), strings.NewReader(string(d.Data[n/2:])))
		}},
		{"io.LimitReader", func() io.Reader {
			return io.LimitReader(bytes.NewReader(append(append([]byte(nil), d.Data...), "tail"...)), int64(n))
		}},
		{"io.SectionReader", func() io.Reader { return io.NewSectionReader(bytes.NewReader(d.Data), 0, int64(n)) }},
		{"a reader that cannot seek, tail delivered with EOF", func() io.Reader { return struct{ io.Reader }{newSched(d.Data, []int{n / 2}, true, nil)} }},
		{"a reader that cannot seek, 188-byte reads, last one with EOF", func() io.Reader {
			var cuts []int
			for p := 188; p < n; p += 188 {
				cuts = append(cuts, p)
			}
			return struct{ io.Reader }{newSched(d.Data, cuts, true, nil)}
		}},
		{"a reader that cannot seek, 1000-byte reads", func() io.Reader {
			var cuts []int
			for p := 1000; p < n; p += 1000 {
				cuts = append(cuts, p)
			}
			return struct{ io.Reader }{newSched(d.Data, cuts, false, nil)}
		}},
		{"a bytes.Reader positioned behind 564 bytes that belong to something else", func() io.Reader {
			rd := bytes.NewReader(append(bytes.Repeat([]byte{0x47, 0x1f, 0xff, 0x10, 'x', '\n'}, 94), d.Data...))
			rd.Seek(564, io.SeekStart)
			return rd
		}},
		{"an os.File positioned behind 1000 bytes that belong to something else", func() io.Reader {
			os.WriteFile(tmp+".off", append(bytes.Repeat([]byte("1\n00:00:01,000 --> 00:00:02,000\nsomething else\n\n"), 40)[:1000:1000], d.Data...), 0o644)
			file2, _ = os.Open(tmp + ".off")
			file2.Seek(1000, io.SeekStart)
			return file2
		}},
		{"the read end of an os.Pipe (an *os.File that cannot seek)", func() io.Reader {
			pr, pw, err := os.Pipe()
			if err != nil {
				return bytes.NewReader(d.Data)
			}
			pipes = append(pipes, pr)
			go func() { pw.Write(d.Data); pw.Close() }()
			return pr
		}},
		{"iotest.HalfReader", func() io.Reader { return iotest.HalfReader(bytes.NewReader(d.Data)) }},
		{"iotest.DataErrReader", func() io.Reader { return iotest.DataErrReader(bytes.NewReader(d.Data)) }},
	}
	if d.Format == "teletext" {
		// a source that hesitates (a network stream): what is read does not depend on how long it takes
		kinds = append(kinds, struct {
			name string
			mk   func() io.Reader
		}{"a reader that cannot seek and pauses for 0.7 s after its first kilobyte", func() io.Reader {
			return &c17SlowReader{r: bytes.NewReader(d.Data)}
		}})
	}
	if n <= 65536 {
		kinds = append(kinds, struct {
			name string
			mk   func() io.Reader
		}{"iotest.OneByteReader", func() io.Reader { return iotest.OneByteReader(bytes.NewReader(d.Data)) }})
	}
	for _, k := range kinds {
		got := runRead(d, k.mk())
		schedules++
		if !sameResult(ref, got) {
			return fw.Bad(key, fmt.Sprintf("%x", d.Data), "%s reader (%s document, %d bytes, %s): delivered all at once by a plain reader -> %s; delivered by %s -> %s", d.Format, variant, n, d.Origin, describeResult(ref), k.name, describeResult(got))
		}
		c.Count("standard_reader_kinds_tried", 1)
	}
	c.Count("schedules_run", int64(schedules))
	c.Feature(fmt.Sprintf("%s %s ok=%v", d.Format, variant, !ref.failed))
	return fw.OK(key, map[string]interface{}{"format": d.Format, "document": variant, "bytes": n, "schedules": schedules, "one_shot_result": describeResult(ref)})
}

func init() {
	fw.Register(&fw.Property{
		ID:          "C17",
		Level:       "exploration",
		Rule:        "case = one document (formats cycle over srt, webvtt, ttml, ssa, stl, teletext; per format: generated valid documents from the C01-C06 generators, mutated/truncated invalid ones, the repository's testdata, and a ~200 KiB document) read through a harness io.Reader (+Seeker) whose delivery schedule is controlled and logged: every single split point k (exhaustive for documents up to 4 KiB; beyond that the first 200 (40) offsets, 4096/8192/65536/131072 +-2 from both ends and 150 (30) random ones), every fifth split with the tail delivered together with io.EOF, all-at-once with EOF, one byte at a time (also with EOF on the last byte), 2/3/7 equal parts, random chunk sequences with up to two consecutive zero-length reads, 4096/4095/65537-byte reads on the big documents. Oracle: both fail, or both succeed with reflect.DeepEqual results, compared with the all-at-once delivery. distinct_nontrivial = distinct documents; events.schedules_run and reads_issued count the schedules and Read calls observed.",
		Assumptions: []string{"error text is not compared, only the fact of failing", "the schedule wrapper also implements io.Seeker so that the teletext reader's rewind works identically under every schedule"},
		Cases:       func(tier string) int64 { return tierN(tier, 96, 1536) },
		Anchors:     []string{"newScanner", "readNBytes", "ReadFromTTML", "ReadFromTeletext", "newTeletextReader"},
		Run:         c17Run,
	})
}

var _ = bytes.NewReader
