package props

import (
	"bytes"
	"encoding/xml"
	"fmt"
	"io"
	"math/big"
	"reflect"
	"sort"
	"strconv"
	"strings"
	"time"

	astisub "github.com/asticode/go-astisub"
	"verif/harness/fw"
)

// C03 TTML fidelity.

var ttmlAttrNames = []string{"backgroundColor", "color", "direction", "display", "displayAlign", "extent", "fontFamily", "fontSize", "fontStyle", "fontWeight",
	"lineHeight", "opacity", "origin", "overflow", "padding", "showBackground", "textAlign", "textDecoration", "textOutline", "unicodeBidi", "visibility",
	"wrapOption", "writingMode", "zIndex"}

var ttmlAttrValues = map[string][]string{
	"backgroundColor": {"black", "#00000080", "transparent"}, "color": {"white", "#ff0000", "rgba(1,2,3,4)"}, "direction": {"ltr", "rtl"}, "display": {"auto", "none"},
	"displayAlign": {"before", "center", "after"}, "extent": {"100% 10%", "80% 20%", "560px 62px"}, "fontFamily": {"sansSerif", "proportionalSansSerif", "Arial, Helvetica", `"Courier New", monospace`, `O'Reilly Sans`, "A&B <Mono>"},
	"fontSize": {"100%", "18px", "1c 2c"}, "fontStyle": {"normal", "italic"}, "fontWeight": {"normal", "bold"}, "lineHeight": {"normal", "125%"}, "opacity": {"1.0", "0.5"},
	"origin": {"0% 90%", "10% 80%", "10%  80%", " 5% 85% "}, "overflow": {"visible", "hidden"}, "padding": {"0px", "1c 2c"}, "showBackground": {"always", "whenActive"},
	"textAlign": {"center", "left", "end", "justify", "start", "right"}, "textDecoration": {"none", "underline"}, "textOutline": {"black 1px", "none"}, "unicodeBidi": {"normal", "embed"},
	"visibility": {"visible", "hidden"}, "wrapOption": {"wrap", "noWrap"}, "writingMode": {"lrtb", "tbrl"}, "zIndex": {"0", "3", "-2"},
}

type ttmlDef struct {
	ID, Ref string // Ref: parent style (styles) / style (regions)
	Attrs   map[string]string
}

type ttmlRun struct {
	Text, Style string
	Attrs       map[string]string
}

// ttmlTime is a time expression: the instant it means is Num/Den nanoseconds
type ttmlTime struct {
	Expr  string
	Val   *big.Rat // the instant it means, in nanoseconds
	Exact bool     // computed by the library without going through float64
	raw   int64    // writer direction: the instant handed to the writer (the model value is its floor to the ms)
}

func ratNs(num, den int64) *big.Rat { return new(big.Rat).SetFrac(big.NewInt(num), big.NewInt(den)) }

// ratMul returns a*b/den as an exact rational
func ratMul(a, b, den int64) *big.Rat {
	return new(big.Rat).SetFrac(new(big.Int).Mul(big.NewInt(a), big.NewInt(b)), big.NewInt(den))
}

func (t ttmlTime) floorNs() int64 {
	q := new(big.Int).Quo(t.Val.Num(), t.Val.Denom())
	return q.Int64()
}

type ttmlCue struct {
	Begin, End    ttmlTime
	Style, Region string
	Attrs         map[string]string
	Lines         [][]ttmlRun
}

type ttmlModel struct {
	Title, Copyright, Lang string
	FrameRate, TickRate    int64
	Styles, Regions        []ttmlDef
	Cues                   []ttmlCue
}

func attrsString(a map[string]string) string {
	var ks []string
	for k := range a {
		ks = append(ks, k)
	}
	sort.Strings(ks)
	var b strings.Builder
	for _, k := range ks {
		fmt.Fprintf(&b, "%s=%q;", k, a[k])
	}
	return b.String()
}

// ttmlDenote writes everything but the cue times (they are compared numerically, see ttmlCheckTimes)
func ttmlDenote(m ttmlModel) string {
	var b strings.Builder
	fmt.Fprintf(&b, "title=%q copyright=%q lang=%q framerate=%d\n", m.Title, m.Copyright, m.Lang, m.FrameRate)
	ss := append([]ttmlDef(nil), m.Styles...)
	sort.Slice(ss, func(i, j int) bool { return ss[i].ID < ss[j].ID })
	for _, s := range ss {
		fmt.Fprintf(&b, "style %s parent=%q %s\n", s.ID, s.Ref, attrsString(s.Attrs))
	}
	rs := append([]ttmlDef(nil), m.Regions...)
	sort.Slice(rs, func(i, j int) bool { return rs[i].ID < rs[j].ID })
	for _, r := range rs {
		fmt.Fprintf(&b, "region %s style=%q %s\n", r.ID, r.Ref, attrsString(r.Attrs))
	}
	for k, c := range m.Cues {
		fmt.Fprintf(&b, "cue %d: style=%q region=%q %s\n", k, c.Style, c.Region, attrsString(c.Attrs))
		for _, l := range c.Lines {
			b.WriteString("  | ")
			for _, r := range l {
				at := r.Style + "{" + attrsString(r.Attrs) + "}"
				for _, ch := range r.Text {
					fmt.Fprintf(&b, "%q[%s] ", ch, at)
				}
			}
			b.WriteString("\n")
		}
	}
	return b.String()
}

func ttmlGenAttrs(r *fw.Rand, p int) map[string]string {
	a := map[string]string{}
	if !r.P(p, 10) {
		return a
	}
	for i := 0; i < r.Range(1, 4); i++ {
		n := fw.Pick(r, ttmlAttrNames)
		a[n] = fw.Pick(r, ttmlAttrValues[n])
	}
	if r.P(1, 15) {
		for _, n := range ttmlAttrNames {
			a[n] = fw.Pick(r, ttmlAttrValues[n])
		}
	}
	return a
}

func pad2(v int64) string { return fmt.Sprintf("%02d", v) }

// ttmlGenTime picks a syntax and an instant exactly expressible in it
func ttmlGenTime(r *fw.Rand, m *ttmlModel, base int64) ttmlTime {
	t := ttmlGenTime0(r, m, base)
	if !strings.Contains(t.Expr, ":") && r.P(1, 5) {
		// an offset time is <digits>[.<digits>]<metric>: zeros in front change nothing (fixed-width exports)
		t.Expr = strings.Repeat("0", r.Range(1, 4)) + t.Expr
	}
	return t
}

func ttmlGenTime0(r *fw.Rand, m *ttmlModel, base int64) ttmlTime {
	for {
		switch r.Intn(9) {
		case 0: // hh:mm:ss
			s := base/1e9 + r.I64n(20)
			return ttmlTime{Expr: fmt.Sprintf("%s:%s:%s", pad2(s/3600), pad2(s/60%60), pad2(s%60)), Val: ratMul(s, 1e9, 1), Exact: true}
		case 1, 2: // hh:mm:ss.f{1,3}
			msv := base/1e6 + r.I64n(20000)
			d := r.Range(1, 3)
			unit := []int64{0, 100, 10, 1}[d]
			msv = msv / unit * unit
			frac := fmt.Sprintf("%03d", msv%1000)[:d]
			s := msv / 1000
			return ttmlTime{Expr: fmt.Sprintf("%s:%s:%s.%s", pad2(s/3600), pad2(s/60%60), pad2(s%60), frac), Val: ratMul(msv, 1e6, 1), Exact: true}
		case 3: // hh:mm:ss:ff
			if m.FrameRate == 0 {
				continue
			}
			s := base/1e9 + r.I64n(20)
			f := r.I64n(m.FrameRate)
			return ttmlTime{Expr: fmt.Sprintf("%s:%s:%s:%s", pad2(s/3600), pad2(s/60%60), pad2(s%60), pad2(f)), Val: new(big.Rat).Add(ratMul(s, 1e9, 1), ratMul(f, 1e9, m.FrameRate))}
		case 4: // Nh / N.NNNh / N.NNNNNh
			if r.P(1, 3) {
				// hundred-thousandths of an hour (36 ms): more decimals than the milliseconds a clock time has
				u := base/36000000 + r.I64n(200000)
				return ttmlTime{Expr: fmt.Sprintf("%d.%05dh", u/100000, u%100000), Val: ratMul(u, 36000000, 1)}
			}
			milli := base/3600000000 + r.I64n(2000) // thousandths of an hour
			return ttmlTime{Expr: ttmlDec(milli, r) + "h", Val: ratMul(milli, 3600000000, 1)}
		case 5: // m
			if r.P(1, 3) {
				u := base/600000 + r.I64n(3000000) // hundred-thousandths of a minute (0.6 ms)
				return ttmlTime{Expr: fmt.Sprintf("%d.%05dm", u/100000, u%100000), Val: ratMul(u, 600000, 1)}
			}
			milli := base/60000000 + r.I64n(30000)
			return ttmlTime{Expr: ttmlDec(milli, r) + "m", Val: ratMul(milli, 60000000, 1)}
		case 6: // s or ms
			if r.Bool() {
				milli := base/1e6 + r.I64n(30000)
				return ttmlTime{Expr: ttmlDec(milli, r) + "s", Val: ratMul(milli, 1e6, 1)}
			}
			micro := base/1e3 + r.I64n(30000000)
			if r.Bool() {
				micro = micro / 1000 * 1000
			}
			return ttmlTime{Expr: ttmlDec(micro, r) + "ms", Val: ratMul(micro, 1e3, 1)}
		case 7: // f
			if m.FrameRate == 0 {
				continue
			}
			f := base/1e9*m.FrameRate + r.I64n(500)
			return ttmlTime{Expr: strconv.FormatInt(f, 10) + "f", Val: ratMul(f, 1e9, m.FrameRate)}
		case 8: // t
			if m.TickRate == 0 {
				continue
			}
			t := base/1e9*m.TickRate + r.I64n(30*m.TickRate+1)
			if t == 0 {
				t = 1
			}
			return ttmlTime{Expr: strconv.FormatInt(t, 10) + "t", Val: ratMul(t, 1e9, m.TickRate)}
		}
	}
}

// ttmlDec writes v/1000 as a decimal number (integer when possible, or deliberately with decimals)
func ttmlDec(v int64, r *fw.Rand) string {
	if v%1000 == 0 && r.Bool() {
		return strconv.FormatInt(v/1000, 10)
	}
	s := fmt.Sprintf("%d.%03d", v/1000, v%1000)
	if r.Bool() {
		s = strings.TrimRight(s, "0")
		if strings.HasSuffix(s, ".") {
			s += "0"
		}
	}
	return s
}

var ttmlLangs = map[string]string{"zh": "chinese", "en": "english", "fr": "french", "ja": "japanese", "no": "norwegian"}

func ttmlGenModel(r *fw.Rand, forWriter bool) ttmlModel {
	var m ttmlModel
	if r.Bool() {
		m.Title = genText(r, textOpts{amp: true, lt: true, gt: true, maxWords: 3})
	}
	if r.Bool() {
		m.Copyright = genText(r, textOpts{amp: true, maxWords: 3})
	}
	if r.P(2, 3) {
		m.Lang = fw.Pick(r, []string{"zh", "en", "fr", "ja", "no"})
	}
	if !forWriter {
		m.FrameRate = fw.Pick(r, []int64{0, 24, 25, 30, 50, 60, 120, 240, 1000})
		m.TickRate = fw.Pick(r, []int64{0, 1, 1000, 90000, 10000000})
	}
	ns := r.Intn(6)
	for k := 0; k < ns; k++ {
		d := ttmlDef{ID: fmt.Sprintf("s%d", k), Attrs: ttmlGenAttrs(r, 8)}
		m.Styles = append(m.Styles, d)
	}
	// parent links: an arbitrary forest (several children per parent, chains up to depth 4)
	perm := r.Perm(ns)
	for i := 1; i < ns; i++ {
		if r.P(3, 5) {
			m.Styles[perm[i]].Ref = m.Styles[perm[r.Intn(i)]].ID
		}
	}
	for k := 0; k < r.Intn(4); k++ {
		d := ttmlDef{ID: fmt.Sprintf("r%d", k), Attrs: ttmlGenAttrs(r, 6)}
		if ns > 0 && r.Bool() {
			d.Ref = m.Styles[r.Intn(ns)].ID
		}
		m.Regions = append(m.Regions, d)
	}
	var t int64
	for k := 0; k < r.Intn(7); k++ {
		var c ttmlCue
		t += r.I64n(100) * 1e8
		if r.P(1, 8) {
			t += fw.Pick(r, []int64{3600, 36000, 86400}) * 1e9
		}
		if !forWriter && r.P(1, 12) {
			t += fw.Pick(r, []int64{100, 123, 250}) * 3600 * 1e9 // a time expression has as many hour digits as it needs
		}
		if (forWriter && t > 90*3600*1e9) || t > 900*3600*1e9 {
			t = r.I64n(1000) * 1e9
		}
		if forWriter {
			b := t + r.I64n(1e6)*fw.Pick(r, []int64{0, 1})
			e := b + r.I64n(10000)*1e6 + r.I64n(1e6)*fw.Pick(r, []int64{0, 1})
			c.Begin, c.End = ttmlTime{Val: ratNs(b/1e6*1e6, 1), Exact: true, Expr: fmt.Sprint(b)}, ttmlTime{Val: ratNs(e/1e6*1e6, 1), Exact: true, Expr: fmt.Sprint(e)}
			c.Begin.raw, c.End.raw = b, e
		} else {
			c.Begin = ttmlGenTime(r, &m, t)
			c.End = ttmlGenTime(r, &m, c.Begin.floorNs())
		}
		t = c.End.floorNs()
		if ns > 0 && r.P(1, 2) {
			c.Style = m.Styles[r.Intn(ns)].ID
		}
		if len(m.Regions) > 0 && r.P(1, 2) {
			c.Region = m.Regions[r.Intn(len(m.Regions))].ID
		}
		c.Attrs = ttmlGenAttrs(r, 3)
		for l := 0; l < r.Range(1, 3); l++ {
			txt := genText(r, textOpts{amp: true, lt: true, gt: true, nbsp: true, braces: true, comma: true, ampEntity: true, bsN: true, maxWords: 5})
			if forWriter && r.P(1, 5) {
				txt += fw.Pick(r, []string{"]]>", "\u0085x", " y", "'\"", "\ttab", "<![CDATA[z]]>", "&#xA;"})
			}
			var runs []ttmlRun
			for _, p := range splitRuns(r, txt, r.Range(1, 3)) {
				run := ttmlRun{Text: p, Attrs: map[string]string{}}
				if r.P(1, 2) {
					if ns > 0 && r.Bool() {
						run.Style = m.Styles[r.Intn(ns)].ID
					}
					run.Attrs = ttmlGenAttrs(r, 5)
				}
				runs = append(runs, run)
			}
			if forWriter && r.P(1, 6) {
				runs = append(runs, ttmlRun{Text: fw.Pick(r, []string{" ", "  ", " x "}), Attrs: map[string]string{}})
			}
			c.Lines = append(c.Lines, runs)
			if r.P(1, 8) {
				c.Lines = append(c.Lines, nil) // a spacer line: two consecutive line breaks, or a line break at the very end
			}
		}
		m.Cues = append(m.Cues, c)
	}
	return m
}

type ttmlRender struct {
	indent           string
	elemPrefix       string // "", "tt:", "x:"
	attrPrefix       bool   // tts: on style attributes
	paramPrefix      bool
	xmlID, xmlLang   bool
	brKind           int
	brInSpan         bool
	bareText         bool
	singleQuote      bool
	decl             bool
	twoDivs          bool
	comments         bool
	langSuffix       string
	cdata            bool
	stylingAfterBody bool
	wrap             bool
}

func (o ttmlRender) String() string {
	return fmt.Sprintf("indent=%q elem=%q tts=%v ttp=%v xmlid=%v xmllang=%v br=%d brInSpan=%v bare=%v sq=%v decl=%v divs=%v comments=%v lang+%q cdata=%v",
		o.indent, o.elemPrefix, o.attrPrefix, o.paramPrefix, o.xmlID, o.xmlLang, o.brKind, o.brInSpan, o.bareText, o.singleQuote, o.decl, o.twoDivs, o.comments, o.langSuffix, o.cdata)
}

func ttmlGenRender(r *fw.Rand) ttmlRender {
	return ttmlRender{indent: fw.Pick(r, []string{"", "", "  ", "    ", "\t"}), elemPrefix: fw.Pick(r, []string{"", "", "tt:", "x:"}), attrPrefix: r.Bool(), paramPrefix: r.Bool(),
		xmlID: r.Bool(), xmlLang: r.Bool(), brKind: r.Intn(4), brInSpan: r.Bool(), bareText: r.Bool(), singleQuote: r.P(1, 4), decl: r.Bool(), twoDivs: r.P(1, 4),
		wrap: r.P(1, 4), comments: r.P(1, 5), langSuffix: fw.Pick(r, []string{"", "", "-FR", "-Hans-CN"}), cdata: r.P(1, 5)}
}

func xmlEsc(s string, attr bool) string {
	var b strings.Builder
	for _, c := range s {
		switch c {
		case '&':
			b.WriteString("&amp;")
		case '<':
			b.WriteString("&lt;")
		case '>':
			b.WriteString("&gt;")
		case '"':
			if attr {
				b.WriteString("&quot;")
			} else {
				b.WriteRune(c)
			}
		case '\'':
			if attr {
				b.WriteString("&#39;")
			} else {
				b.WriteRune(c)
			}
		case '\t':
			b.WriteString("&#x9;")
		default:
			b.WriteRune(c)
		}
	}
	return b.String()
}

func (o ttmlRender) attr(name, val string) string {
	q := `"`
	if o.singleQuote {
		q = `'`
	}
	return " " + name + "=" + q + xmlEsc(val, true) + q
}

func (o ttmlRender) styleAttrs(a map[string]string, r *fw.Rand) string {
	var ks []string
	for k := range a {
		ks = append(ks, k)
	}
	sort.Strings(ks)
	fw.Shuffle(r, ks)
	var b strings.Builder
	for _, k := range ks {
		n := k
		if o.attrPrefix {
			n = "tts:" + k
		}
		b.WriteString(o.attr(n, a[k]))
	}
	return b.String()
}

func (o ttmlRender) idAttr(id string) string {
	if o.xmlID {
		return o.attr("xml:id", id)
	}
	return o.attr("id", id)
}

func ttmlRenderDoc(m ttmlModel, o ttmlRender, r *fw.Rand) []byte {
	var b strings.Builder
	e := o.elemPrefix
	nl := func(depth int) string {
		if o.indent == "" {
			return ""
		}
		return "\n" + strings.Repeat(o.indent, depth)
	}
	if o.decl {
		b.WriteString(`<?xml version="1.0" encoding="UTF-8"?>` + "\n")
	}
	b.WriteString("<" + e + "tt")
	switch e {
	case "":
		b.WriteString(` xmlns="http://www.w3.org/ns/ttml"`)
	case "tt:":
		b.WriteString(` xmlns:tt="http://www.w3.org/ns/ttml"`)
	default:
		b.WriteString(` xmlns:x="http://www.w3.org/ns/ttml"`)
	}
	b.WriteString(` xmlns:tts="http://www.w3.org/ns/ttml#styling" xmlns:ttp="http://www.w3.org/ns/ttml#parameter" xmlns:ttm="http://www.w3.org/ns/ttml#metadata"`)
	if m.Lang != "" {
		n := "lang"
		if o.xmlLang {
			n = "xml:lang"
		}
		b.WriteString(o.attr(n, m.Lang+o.langSuffix))
	}
	pp := ""
	if o.paramPrefix {
		pp = "ttp:"
	}
	if m.FrameRate != 0 {
		b.WriteString(o.attr(pp+"frameRate", strconv.FormatInt(m.FrameRate, 10)))
	}
	if m.TickRate != 0 {
		b.WriteString(o.attr(pp+"tickRate", strconv.FormatInt(m.TickRate, 10)))
	}
	b.WriteString(">")
	b.WriteString(nl(1) + "<" + e + "head>")
	if m.Title != "" || m.Copyright != "" {
		b.WriteString(nl(2) + "<" + e + "metadata>")
		if m.Title != "" {
			b.WriteString(nl(3) + "<ttm:title>" + xmlEsc(m.Title, false) + "</ttm:title>")
		}
		if m.Copyright != "" {
			b.WriteString(nl(3) + "<ttm:copyright>" + xmlEsc(m.Copyright, false) + "</ttm:copyright>")
		}
		b.WriteString(nl(2) + "</" + e + "metadata>")
	}
	if len(m.Styles) > 0 {
		b.WriteString(nl(2) + "<" + e + "styling>")
		idx := r.Perm(len(m.Styles)) // document order is free: a child may come before its parent
		for _, i := range idx {
			s := m.Styles[i]
			b.WriteString(nl(3) + "<" + e + "style" + o.idAttr(s.ID))
			if s.Ref != "" {
				b.WriteString(o.attr("style", s.Ref))
			}
			b.WriteString(o.styleAttrs(s.Attrs, r) + "/>")
			if o.comments {
				b.WriteString("<!-- style " + s.ID + " -->")
			}
		}
		b.WriteString(nl(2) + "</" + e + "styling>")
	}
	if len(m.Regions) > 0 {
		b.WriteString(nl(2) + "<" + e + "layout>")
		for _, s := range m.Regions {
			b.WriteString(nl(3) + "<" + e + "region" + o.idAttr(s.ID))
			if s.Ref != "" {
				b.WriteString(o.attr("style", s.Ref))
			}
			b.WriteString(o.styleAttrs(s.Attrs, r) + "></" + e + "region>")
		}
		b.WriteString(nl(2) + "</" + e + "layout>")
	}
	b.WriteString(nl(1) + "</" + e + "head>")
	b.WriteString(nl(1) + "<" + e + "body>" + nl(2) + "<" + e + "div>")
	br := func() string {
		switch o.brKind {
		case 1:
			return "<" + e + "br></" + e + "br>"
		case 2:
			return "<" + e + "BR/>"
		case 3:
			return "<" + e + "br />"
		}
		return "<" + e + "br/>"
	}
	text := func(s string) string {
		if o.cdata && !strings.Contains(s, "]]>") && r.Bool() {
			return "<![CDATA[" + s + "]]>"
		}
		e := xmlEsc(s, false)
		if o.wrap && o.indent != "" {
			// word-wrapped source text: the space stays at the end of the line, the next line is indented
			if i := strings.Index(e, " "); i > 0 && i+1 < len(e) && e[i+1] != ' ' {
				e = e[:i+1] + "\n" + strings.Repeat(o.indent, 5) + e[i+1:]
			}
		}
		return e
	}
	for k, c := range m.Cues {
		if o.twoDivs && k == len(m.Cues)/2 && k > 0 {
			b.WriteString(nl(2) + "</" + e + "div>" + nl(2) + "<" + e + "div>")
		}
		b.WriteString(nl(3) + "<" + e + "p" + o.attr("begin", c.Begin.Expr) + o.attr("end", c.End.Expr))
		if o.comments && r.Bool() {
			b.WriteString(o.attr("xml:id", fmt.Sprintf("sub_%d", k)))
		}
		if c.Region != "" {
			b.WriteString(o.attr("region", c.Region))
		}
		if c.Style != "" {
			b.WriteString(o.attr("style", c.Style))
		}
		b.WriteString(o.styleAttrs(c.Attrs, r) + ">")
		// content: a sequence of pieces; indentation only next to <br/> and the <p> tags
		plain := func(run ttmlRun) bool {
			return run.Style == "" && len(run.Attrs) == 0 && trimmedEq(run.Text) && o.bareText
		}
		same := func(a, b2 ttmlRun) bool {
			return a.Style == b2.Style && attrsString(a.Attrs) == attrsString(b2.Attrs) && !plain(a)
		}
		openSpan := func(run ttmlRun) string {
			s := "<" + e + "span"
			if run.Style != "" {
				s += o.attr("style", run.Style)
			}
			return s + o.styleAttrs(run.Attrs, r) + ">"
		}
		first := true
		inSpan := false
		var cur ttmlRun
		for li, line := range c.Lines {
			if len(line) == 0 {
				// an empty line denotes itself: only the line break that follows it (if any) is written
				if li+1 < len(c.Lines) {
					if inSpan {
						b.WriteString(br())
					} else {
						b.WriteString(nl(4) + br())
					}
				}
				continue
			}
			for ri, run := range line {
				atLineStart := ri == 0
				if inSpan {
					// a span left open across the line break (br inside the span)
					b.WriteString(text(run.Text))
					cur = run
				} else {
					if atLineStart && (first || li > 0) && !plain(run) {
						b.WriteString(nl(4))
					} else if atLineStart && first && plain(run) && o.indent != "" && false {
						b.WriteString(nl(4))
					}
					if plain(run) {
						b.WriteString(text(run.Text))
					} else {
						b.WriteString(openSpan(run) + text(run.Text))
						inSpan = true
						cur = run
					}
				}
				first = false
				// close the span unless the next run (after a line break) continues it with br inside
				lastInLine := ri == len(line)-1
				if inSpan {
					if lastInLine && li+1 < len(c.Lines) && o.brInSpan && r.Bool() && ttmlNextRunSame(c.Lines, li, cur, same) {
						b.WriteString(br()) // br inside the span; stay in the span
					} else {
						b.WriteString("</" + e + "span>")
						inSpan = false
					}
				}
			}
			if li+1 < len(c.Lines) && !inSpan {
				nextPlain := len(c.Lines[li+1]) > 0 && plain(c.Lines[li+1][0])
				lastPlain := plain(line[len(line)-1])
				if !lastPlain {
					b.WriteString(nl(4))
				}
				b.WriteString(br())
				_ = nextPlain
			}
		}
		if inSpan {
			b.WriteString("</" + e + "span>") // the span that was kept open over trailing spacer lines
			inSpan = false
		}
		if last := c.Lines[len(c.Lines)-1]; len(last) == 0 || !plain(last[len(last)-1]) {
			b.WriteString(nl(3))
		}
		b.WriteString("</" + e + "p>")
	}
	b.WriteString(nl(2) + "</" + e + "div>" + nl(1) + "</" + e + "body>" + nl(0) + "</" + e + "tt>")
	if o.indent != "" {
		b.WriteString("\n")
	}
	return []byte(b.String())
}

func ttmlAttrsOf(sa *astisub.StyleAttributes) map[string]string {
	a := map[string]string{}
	if sa == nil {
		return a
	}
	v := reflect.ValueOf(*sa)
	for _, n := range ttmlAttrNames {
		f := v.FieldByName("TTML" + strings.ToUpper(n[:1]) + n[1:])
		if !f.IsValid() || f.IsNil() {
			continue
		}
		if n == "zIndex" {
			a[n] = strconv.Itoa(int(f.Elem().Int()))
		} else {
			a[n] = f.Elem().String()
		}
	}
	return a
}

func ttmlSetAttrs(a map[string]string) *astisub.StyleAttributes {
	sa := &astisub.StyleAttributes{}
	v := reflect.ValueOf(sa).Elem()
	for n, val := range a {
		f := v.FieldByName("TTML" + strings.ToUpper(n[:1]) + n[1:])
		if n == "zIndex" {
			i, _ := strconv.Atoi(val)
			f.Set(reflect.ValueOf(&i))
		} else {
			s := val
			f.Set(reflect.ValueOf(&s))
		}
	}
	return sa
}

// ttmlNextRunSame tells whether the span of cur may stay open over the line break(s) after line li: the next non-empty
// line must start with a run of the same style and attributes (spacer lines in between are crossed inside the span)
func ttmlNextRunSame(lines [][]ttmlRun, li int, cur ttmlRun, same func(a, b ttmlRun) bool) bool {
	for j := li + 1; j < len(lines); j++ {
		if len(lines[j]) > 0 {
			return same(cur, lines[j][0])
		}
	}
	return true // only spacer lines follow: the line breaks may all stand inside the span
}

type ttmlTimes struct{ Begin, End int64 }

func ttmlProject(s *astisub.Subtitles) (ttmlModel, []ttmlTimes) {
	var m ttmlModel
	if md := s.Metadata; md != nil {
		m.Title, m.Copyright, m.FrameRate = md.Title, md.TTMLCopyright, int64(md.Framerate)
		for code, name := range ttmlLangs {
			if md.Language == name {
				m.Lang = code
			}
		}
		if md.Language != "" && m.Lang == "" {
			m.Lang = "?" + md.Language
		}
	}
	for id, st := range s.Styles {
		d := ttmlDef{ID: st.ID, Attrs: ttmlAttrsOf(st.InlineStyle)}
		if id != st.ID {
			d.ID = id + "!=" + st.ID
		}
		if st.Style != nil {
			d.Ref = st.Style.ID
			if s.Styles[d.Ref] != st.Style {
				d.Ref += " (not the defined style object)"
			}
		}
		m.Styles = append(m.Styles, d)
	}
	for id, rg := range s.Regions {
		d := ttmlDef{ID: rg.ID, Attrs: ttmlAttrsOf(rg.InlineStyle)}
		if id != rg.ID {
			d.ID = id + "!=" + rg.ID
		}
		if rg.Style != nil {
			d.Ref = rg.Style.ID
			if s.Styles[d.Ref] != rg.Style {
				d.Ref += " (not the defined style object)"
			}
		}
		m.Regions = append(m.Regions, d)
	}
	var ts []ttmlTimes
	for _, it := range s.Items {
		c := ttmlCue{Attrs: ttmlAttrsOf(it.InlineStyle)}
		if it.Style != nil {
			c.Style = it.Style.ID
			if s.Styles[c.Style] != it.Style {
				c.Style += " (not the defined style object)"
			}
		}
		if it.Region != nil {
			c.Region = it.Region.ID
			if s.Regions[c.Region] != it.Region {
				c.Region += " (not the defined region object)"
			}
		}
		for _, l := range it.Lines {
			var runs []ttmlRun
			for _, li := range l.Items {
				run := ttmlRun{Text: li.Text, Attrs: ttmlAttrsOf(li.InlineStyle)}
				if li.Style != nil {
					run.Style = li.Style.ID
					if s.Styles[run.Style] != li.Style {
						run.Style += " (not the defined style object)"
					}
				}
				runs = append(runs, run)
			}
			c.Lines = append(c.Lines, runs)
		}
		m.Cues = append(m.Cues, c)
		ts = append(ts, ttmlTimes{int64(it.StartAt), int64(it.EndAt)})
	}
	return m, ts
}

func ttmlBuild(m ttmlModel, r *fw.Rand) *astisub.Subtitles {
	s := astisub.NewSubtitles()
	if m.Title != "" || m.Copyright != "" || m.Lang != "" || r.Bool() {
		s.Metadata = &astisub.Metadata{Title: m.Title, TTMLCopyright: m.Copyright, Language: ttmlLangs[m.Lang]}
	}
	for _, d := range m.Styles {
		s.Styles[d.ID] = &astisub.Style{ID: d.ID, InlineStyle: ttmlSetAttrs(d.Attrs)}
	}
	for _, d := range m.Styles {
		if d.Ref != "" {
			s.Styles[d.ID].Style = s.Styles[d.Ref]
		}
	}
	for _, d := range m.Regions {
		rg := &astisub.Region{ID: d.ID, InlineStyle: ttmlSetAttrs(d.Attrs)}
		if d.Ref != "" {
			rg.Style = s.Styles[d.Ref]
		}
		if len(d.Attrs) == 0 && r.Bool() {
			rg.InlineStyle = nil
		}
		s.Regions[d.ID] = rg
	}
	for _, c := range m.Cues {
		it := &astisub.Item{StartAt: time.Duration(c.Begin.raw), EndAt: time.Duration(c.End.raw)}
		if len(c.Attrs) > 0 || r.Bool() {
			it.InlineStyle = ttmlSetAttrs(c.Attrs)
		}
		if c.Style != "" {
			it.Style = s.Styles[c.Style]
		}
		if c.Region != "" {
			it.Region = s.Regions[c.Region]
		}
		for _, l := range c.Lines {
			var line astisub.Line
			for _, run := range l {
				li := astisub.LineItem{Text: run.Text}
				if len(run.Attrs) > 0 || r.Bool() {
					li.InlineStyle = ttmlSetAttrs(run.Attrs)
				}
				if run.Style != "" {
					li.Style = s.Styles[run.Style]
				}
				line.Items = append(line.Items, li)
			}
			it.Lines = append(it.Lines, line)
		}
		s.Items = append(s.Items, it)
	}
	return s
}

// ttmlDecode is the harness's XML-based decoder for what the writer emits
func ttmlDecode(b []byte) (ttmlModel, []ttmlTimes, error) {
	var m ttmlModel
	var ts []ttmlTimes
	d := xml.NewDecoder(bytes.NewReader(b))
	attrs := func(se xml.StartElement) (id, style, region, begin, end, lang string, a map[string]string) {
		a = map[string]string{}
		for _, at := range se.Attr {
			switch {
			case at.Name.Local == "id":
				id = at.Value
			case at.Name.Local == "style" && at.Name.Space == "":
				style = at.Value
			case at.Name.Local == "region" && at.Name.Space == "":
				region = at.Value
			case at.Name.Local == "begin":
				begin = at.Value
			case at.Name.Local == "end":
				end = at.Value
			case at.Name.Local == "lang":
				lang = at.Value
			case at.Name.Space == "http://www.w3.org/ns/ttml#styling":
				a[at.Name.Local] = at.Value
			}
		}
		return
	}
	clock := func(s string) (int64, error) {
		var h, mi, se, f int64
		if n, err := fmt.Sscanf(s, "%d:%d:%d.%d", &h, &mi, &se, &f); n != 4 || err != nil || len(s) < 12 || s[len(s)-4] != '.' {
			return 0, fmt.Errorf("bad clock time %q", s)
		}
		if mi >= 60 || se >= 60 {
			return 0, fmt.Errorf("clock time field out of range in %q", s)
		}
		return (h*3600000 + mi*60000 + se*1000 + f) * 1e6, nil
	}
	var path []string
	var cur *ttmlCue
	var run *ttmlRun
	var line []ttmlRun
	var textTarget *string
	for {
		tok, err := d.Token()
		if err == io.EOF {
			break
		}
		if err != nil {
			return m, ts, fmt.Errorf("xml: %v", err)
		}
		switch t := tok.(type) {
		case xml.StartElement:
			path = append(path, t.Name.Local)
			id, style, region, begin, end, lang, a := attrs(t)
			p := strings.Join(path, "/")
			switch p {
			case "tt":
				if t.Name.Space != "http://www.w3.org/ns/ttml" {
					return m, ts, fmt.Errorf("root element is in namespace %q", t.Name.Space)
				}
				m.Lang = lang
			case "tt/head/metadata/title":
				textTarget = &m.Title
			case "tt/head/metadata/copyright":
				textTarget = &m.Copyright
			case "tt/head/styling/style":
				m.Styles = append(m.Styles, ttmlDef{ID: id, Ref: style, Attrs: a})
			case "tt/head/layout/region":
				m.Regions = append(m.Regions, ttmlDef{ID: id, Ref: style, Attrs: a})
			case "tt/body/div/p":
				cur = &ttmlCue{Style: style, Region: region, Attrs: a}
				line = nil
				bt, err := clock(begin)
				if err != nil {
					return m, ts, err
				}
				et, err := clock(end)
				if err != nil {
					return m, ts, err
				}
				ts = append(ts, ttmlTimes{bt, et})
			case "tt/body/div/p/span":
				run = &ttmlRun{Style: style, Attrs: a}
			case "tt/body/div/p/br":
				cur.Lines = append(cur.Lines, line)
				line = nil
			}
		case xml.EndElement:
			p := strings.Join(path, "/")
			switch p {
			case "tt/body/div/p/span":
				line = append(line, *run)
				run = nil
			case "tt/body/div/p":
				cur.Lines = append(cur.Lines, line)
				m.Cues = append(m.Cues, *cur)
				cur = nil
			case "tt/head/metadata/title", "tt/head/metadata/copyright":
				textTarget = nil
			}
			path = path[:len(path)-1]
		case xml.CharData:
			switch {
			case run != nil:
				run.Text += string(t)
			case textTarget != nil:
				*textTarget += string(t)
			case cur != nil && strings.TrimSpace(string(t)) != "":
				return m, ts, fmt.Errorf("text directly inside <p>: %q", string(t))
			}
		}
	}
	return m, ts, nil
}

func ttmlCheckTimes(m ttmlModel, got []ttmlTimes) string {
	if len(got) != len(m.Cues) {
		return fmt.Sprintf("%d cues returned, %d in the document", len(got), len(m.Cues))
	}
	for k, c := range m.Cues {
		for j, p := range [][2]interface{}{{c.Begin, got[k].Begin}, {c.End, got[k].End}} {
			t, g := p[0].(ttmlTime), p[1].(int64)
			// the instant the expression means, at the resolution of time.Duration: the value itself when it is a whole
			// number of nanoseconds, else one of its two neighbours (the statement does not fix a rounding direction)
			lo := new(big.Int).Div(t.Val.Num(), t.Val.Denom())
			hi := new(big.Int).Set(lo)
			if !t.Val.IsInt() {
				hi.Add(hi, big.NewInt(1))
			}
			if gi := big.NewInt(g); gi.Cmp(lo) < 0 || gi.Cmp(hi) > 0 {
				return fmt.Sprintf("cue %d %s %q resolves to %d ns, it means %s ns", k, []string{"begin", "end"}[j], t.Expr, g, t.Val.FloatString(3))
			}
		}
	}
	return ""
}

func c03Reader(c *fw.Ctx) fw.Outcome {
	model := ttmlGenModel(c.R, false)
	for k := 0; k < 3; k++ {
		o := ttmlGenRender(c.R)
		doc := ttmlRenderDoc(model, o, c.R)
		key := fw.HashBytes(doc)
		var got *astisub.Subtitles
		var err error
		if p := guard(func() { got, err = astisub.ReadFromTTML(bytes.NewReader(doc)) }); p != "" {
			return fw.Bad(key, string(doc), "reader panicked on rendering {%s}: %s\n%q", o, p, trunc(string(doc), 900))
		}
		if err != nil {
			return fw.Bad(key, string(doc), "reader rejected a well-formed document (rendering {%s}): %v\n%q", o, err, trunc(string(doc), 1200))
		}
		pm, ts := ttmlProject(got)
		expM := model
		expM.TickRate = 0
		if exp, have := ttmlDenote(expM), ttmlDenote(pm); exp != have {
			return fw.Bad(key, string(doc), "TTML reader, rendering {%s}: %s\ndocument: %q", o, firstDiff(exp, have), trunc(string(doc), 1500))
		}
		if msg := ttmlCheckTimes(model, ts); msg != "" {
			return fw.Bad(key, string(doc), "TTML reader (frameRate=%d tickRate=%d), rendering {%s}: %s", model.FrameRate, model.TickRate, o, msg)
		}
		c.Feature(fmt.Sprintf("read indent=%q elem=%q tts=%v br=%d brInSpan=%v bare=%v", o.indent, o.elemPrefix, o.attrPrefix, o.brKind, o.brInSpan, o.bareText))
		if c.Idx%4 == 3 {
			if msg := altEntryPoints(c, "ttml", doc, got, nil); msg != "" {
				return fw.Bad(key, string(doc), "%s", msg)
			}
		}
		c.Count("reader_documents", 1)
	}
	for _, cu := range model.Cues {
		for _, t := range []ttmlTime{cu.Begin, cu.End} {
			kind := "clock"
			switch {
			case strings.Count(t.Expr, ":") == 3:
				kind = "clock+frames"
			case strings.Count(t.Expr, ":") == 2 && strings.Contains(t.Expr, "."):
				kind = "clock+fraction"
			case !strings.Contains(t.Expr, ":"):
				kind = "offset " + strings.TrimLeft(t.Expr, "0123456789.")
			}
			c.Count("time_expr "+kind, 1)
		}
	}
	return fw.OK(fw.HashString(ttmlDenote(model)), map[string]interface{}{"direction": "read", "model": trunc(ttmlDenote(model), 1500)})
}

func c03Writer(c *fw.Ctx) fw.Outcome {
	model := ttmlGenModel(c.R, true)
	if len(model.Cues) == 0 {
		return fw.Skip()
	}
	sub := ttmlBuild(model, c.R)
	indent := fw.Pick(c.R, []string{"", " ", "    ", "\t", "default"})
	var b bytes.Buffer
	var err error
	if p := guard(func() {
		if indent == "default" {
			err = sub.WriteToTTML(&b)
		} else {
			err = sub.WriteToTTML(&b, astisub.WriteToTTMLWithIndentOption(indent))
		}
	}); p != "" || err != nil {
		return fw.Bad(fw.HashString(ttmlDenote(model)), nil, "writer failed: %v %s", err, p)
	}
	if indent == "default" {
		if msg := altWrite(c, "ttml", sub, b.Bytes()); msg != "" {
			return fw.Bad(fw.HashBytes(b.Bytes()), b.String(), "%s", msg)
		}
	}
	doc := b.Bytes()
	key := fw.HashBytes(doc)
	exp := ttmlDenote(model)
	dm, dts, derr := ttmlDecode(doc)
	if derr != nil {
		return fw.Bad(key, string(doc), "the XML-based decoder rejects the writer's output (indent %q): %v\n%q", indent, derr, trunc(string(doc), 1200))
	}
	if have := ttmlDenote(dm); have != exp {
		return fw.Bad(key, string(doc), "TTML writer (indent %q) -> XML decoder: %s\ndocument: %q", indent, firstDiff(exp, have), trunc(string(doc), 1500))
	}
	if msg := ttmlCheckTimes(model, dts); msg != "" {
		return fw.Bad(key, string(doc), "TTML writer -> XML decoder: %s", msg)
	}
	var got *astisub.Subtitles
	if p := guard(func() { got, err = astisub.ReadFromTTML(bytes.NewReader(doc)) }); p != "" || err != nil {
		return fw.Bad(key, string(doc), "library reader failed on the writer's output (indent %q): %v %s\n%q", indent, err, p, trunc(string(doc), 1200))
	}
	pm, ts := ttmlProject(got)
	if have := ttmlDenote(pm); have != exp {
		return fw.Bad(key, string(doc), "TTML writer (indent %q) -> library reader: %s\ndocument: %q", indent, firstDiff(exp, have), trunc(string(doc), 1500))
	}
	if msg := ttmlCheckTimes(model, ts); msg != "" {
		return fw.Bad(key, string(doc), "TTML writer -> library reader: %s", msg)
	}
	c.Feature(fmt.Sprintf("write indent=%q styles=%d regions=%d", indent, len(model.Styles), len(model.Regions)))
	c.Count("writer_documents", 1)
	return fw.OK(key, map[string]interface{}{"direction": "write", "indent": indent, "document": trunc(string(doc), 600)})
}

var _ = time.Second

func init() {
	n := func(tier string) int64 { return tierN(tier, 3000, 250000) }
	fw.Register(&fw.Property{
		ID:    "C03",
		Level: "exploration",
		Rule: "reader cases: a random ground-truth TTML model (0..6 paragraphs with begin/end, 0..5 styles whose parent links form an arbitrary forest incl. several children per parent and children declared before parents, 0..3 regions, subsets of the 24 tts:* attributes on styles/regions/paragraphs/spans, title, copyright, one of the five mapped languages with or without a sub-tag, frameRate in {absent,24,25,30,50,60}, tickRate in {absent,1,1000,90000,10^7}); every boundary is written in a random equivalent time-expression syntax (hh:mm:ss, hh:mm:ss.f{1,3}, hh:mm:ss:ff, N[.NNN]h/m/s, N[.NNN]ms, Nf, Nt) also with zeros in front of an offset time, and its exact rational value is the oracle: the reader must return that instant when it is a whole number of nanoseconds, else one of the two neighbouring nanoseconds; 3 renderings each (indentation none/2/4/tab placed next to <br/> and <p> only, br as <br/>, <br></br>, <BR/>, <br />, between spans or inside a span, bare text or spans, element prefix none/tt:/x:, tts:/ttp: prefixes or none, xml:id or id, xml:lang or lang, quote style, XML declaration, two divs, comments, CDATA). " +
			"writer cases: models built from the public types (incl. white-space-only runs, TAB, U+0085, U+2028, ]]>, quotes, literal character references), written with indent in {\"\",\" \",4 spaces,tab,default}, decoded by the harness's encoding/xml token walk and by the library reader; styles (with parents), regions, metadata, per-rune style/attributes and ms times must equal the model. sweep cases: every block of 256 code points (quick: the BMP and one block per other plane; thorough: all 4352 blocks) written as cue text, 32 characters to a cue, and read back unchanged (white space, controls and the markup characters of the format left out). distinct_nontrivial = distinct documents compared.",
		Assumptions: []string{"paragraphs have begin and end; no nested spans, no dur/time containers; integer f and t values", "indentation is never placed between a text node and an inline span (XML white-space semantics would be ambiguous there); no LF/CR inside a run"},
		Cases:       func(tier string) int64 { return 2*n(tier) + sweepBlocks(tier) },
		Anchors:     []string{"ReadFromTTML", "TTMLInDuration.UnmarshalText", "TTMLInDuration.duration", "TTMLInItems.UnmarshalXML", "newTTMLXmlDecoder", "TTMLInStyleAttributes.styleAttributes", "WriteToTTML", "TTMLOutDuration.MarshalText", "TTMLIn.metadata"},
		Run: func(c *fw.Ctx) fw.Outcome {
			if k := c.Idx - 2*n(c.Tier); k >= 0 {
				return sweepCase(c, k, "ttml", "",
					func(s *astisub.Subtitles, b *bytes.Buffer) error { return s.WriteToTTML(b) },
					func(b []byte) (*astisub.Subtitles, error) { return astisub.ReadFromTTML(bytes.NewReader(b)) })
			}
			if c.Idx < n(c.Tier) {
				return c03Reader(c)
			}
			return c03Writer(c)
		},
	})
}
