// Package props holds the monitors, one file (or a few) per property.
package props

import (
	"bytes"
	"fmt"
	"io"
	"os"
	"os/exec"
	"path/filepath"
	"reflect"
	"runtime/debug"
	"strings"
	"sync"
	"time"
	"unicode"

	astisub "github.com/asticode/go-astisub"
	"verif/harness/fw"
)

// the injectable clock is pinned (C19 varies it on purpose)
var fixedNow = time.Date(2017, 7, 2, 12, 0, 0, 0, time.UTC)

func init() { astisub.Now = func() time.Time { return fixedNow } }

func tierN(tier string, quick, thorough int64) int64 {
	if tier == "thorough" {
		return thorough
	}
	return quick
}

// guard runs a library call under recover(); a recovered panic is reported as text with the stack
func guard(f func()) (panicked string) {
	defer func() {
		if r := recover(); r != nil {
			panicked = fmt.Sprintf("panic: %v\n%s", r, trimStack(string(debug.Stack())))
		}
	}()
	f()
	return
}

func trimStack(s string) string {
	lines := strings.Split(s, "\n")
	var out []string
	for _, l := range lines {
		if strings.Contains(l, "go-astisub") || strings.Contains(l, "/repo/") || strings.Contains(l, "astits") {
			out = append(out, strings.TrimSpace(l))
		}
		if len(out) >= 12 {
			break
		}
	}
	return strings.Join(out, "\n")
}

// panicSite extracts the outermost go-astisub function of a recovered stack (site signature of C08)
func panicSite(stack string) string {
	site := ""
	for _, l := range strings.Split(stack, "\n") {
		l = strings.TrimSpace(l)
		if strings.HasPrefix(l, "github.com/asticode/go-astisub.") {
			f := strings.TrimPrefix(l, "github.com/asticode/go-astisub.")
			if i := strings.Index(f, "("); i > 0 && !strings.HasPrefix(f, "(") {
				f = f[:i]
			} else if strings.HasPrefix(f, "(") {
				if j := strings.Index(f[1:], "("); j > 0 {
					f = f[:j+1]
				}
			}
			site = f
		}
	}
	return site
}

// snapItem is a cheap content snapshot of a cue that leaves the two times out: pointer identity of the style,
// region and inline-style objects, their first-level content, index, comments and all lines.
func snapItem(i *astisub.Item) string {
	var b strings.Builder
	fmt.Fprintf(&b, "%p|%p|%p|%d|%q|", i.Region, i.Style, i.InlineStyle, i.Index, i.Comments)
	if i.InlineStyle != nil {
		fmt.Fprintf(&b, "%+v|", *i.InlineStyle)
	}
	if i.Style != nil {
		fmt.Fprintf(&b, "S%s%p%p|", i.Style.ID, i.Style.InlineStyle, i.Style.Style)
	}
	if i.Region != nil {
		fmt.Fprintf(&b, "R%s%p%p|", i.Region.ID, i.Region.InlineStyle, i.Region.Style)
	}
	for _, l := range i.Lines {
		fmt.Fprintf(&b, "L%q", l.VoiceName)
		for _, li := range l.Items {
			fmt.Fprintf(&b, "[%q %d %p %p", li.Text, li.StartAt, li.Style, li.InlineStyle)
			if li.InlineStyle != nil {
				fmt.Fprintf(&b, " %+v", *li.InlineStyle)
			}
			b.WriteString("]")
		}
	}
	return b.String()
}

func textItem(s, e time.Duration, text string) *astisub.Item {
	return &astisub.Item{StartAt: s, EndAt: e, Lines: []astisub.Line{{Items: []astisub.LineItem{{Text: text}}}}}
}

// fullStyle returns inline attributes with every field of the struct set to a non-zero value (by reflection, so that
// a field added later is filled as well): whatever a transformation is tempted to touch is there to be compared
func fullStyle(k int) *astisub.StyleAttributes {
	// sixteen prototypes built once; every call returns a copy of its own
	fullStyleOnce.Do(func() {
		for i := range fullStyleProto {
			fullStyleProto[i] = buildFullStyle(i)
		}
	})
	c := *fullStyleProto[((k%16)+16)%16]
	return &c
}

var (
	fullStyleOnce  sync.Once
	fullStyleProto [16]*astisub.StyleAttributes
)

func buildFullStyle(k int) *astisub.StyleAttributes {
	sa := &astisub.StyleAttributes{}
	v := reflect.ValueOf(sa).Elem()
	for i := 0; i < v.NumField(); i++ {
		f := v.Field(i)
		if !f.CanSet() {
			continue
		}
		name := v.Type().Field(i).Name
		switch f.Kind() {
		case reflect.String:
			f.SetString(fmt.Sprintf("%s-%d", name, k))
		case reflect.Bool:
			f.SetBool(true)
		case reflect.Int, reflect.Int64, reflect.Uint8:
			if f.Kind() == reflect.Uint8 {
				f.SetUint(uint64(k%200 + 1))
			} else {
				f.SetInt(int64(k + 1))
			}
		case reflect.Ptr:
			e := reflect.New(f.Type().Elem())
			switch e.Elem().Kind() {
			case reflect.String:
				e.Elem().SetString(fmt.Sprintf("%s-%d", name, k))
			case reflect.Bool:
				e.Elem().SetBool(true)
			case reflect.Int, reflect.Int64:
				e.Elem().SetInt(int64(k + 1))
			case reflect.Float64:
				e.Elem().SetFloat(float64(k) + 0.5)
			case reflect.Struct:
				for j := 0; j < e.Elem().NumField(); j++ {
					if g := e.Elem().Field(j); g.CanSet() {
						switch g.Kind() {
						case reflect.Uint8:
							g.SetUint(uint64(17*j + k%50 + 1))
						case reflect.Int:
							g.SetInt(int64(j + k + 1))
						}
					}
				}
			}
			f.Set(e)
		case reflect.Slice:
			if f.Type().Elem().Kind() == reflect.Struct {
				f.Set(reflect.MakeSlice(f.Type(), 1, 1))
				if n := f.Index(0).FieldByName("Name"); n.IsValid() && n.CanSet() && n.Kind() == reflect.String {
					n.SetString("c")
				}
			}
		}
	}
	return sa
}

// decorate gives every third cue an inline (karaoke) timestamp on its first run, and every third a voice name and a
// comment: content that a timing transformation has no business with
func decorate(it *astisub.Item, k int) *astisub.Item {
	it.Index = k%4 + 1 // numbers repeat, as in a list merged from two numbered files
	if k%16 == 2 || k%16 == 11 {
		// (one cue in eight: comparing every field of the attributes is the costly part of a snapshot)
		it.InlineStyle = fullStyle(k)
		if len(it.Lines) > 0 && len(it.Lines[0].Items) > 0 {
			it.Lines[0].Items[0].InlineStyle = fullStyle(k + 1)
		}
	}
	switch k % 3 {
	case 1:
		if len(it.Lines) > 0 && len(it.Lines[0].Items) > 0 {
			it.Lines[0].Items[0].StartAt = 1500*time.Millisecond + time.Duration(k)
		}
	case 2:
		if len(it.Lines) > 0 {
			it.Lines[0].VoiceName = "Voice"
		}
		it.Comments = []string{"comment"}
	}
	return it
}

// altEntryPoints reads a document again through the file-level entry points (OpenFile and Open, codec chosen by the
// extension in random letter case): they must return what the format's own reader returned
func altEntryPoints(c *fw.Ctx, ext string, doc []byte, ref *astisub.Subtitles, stlOpts *astisub.STLOptions) string {
	b := []byte(ext)
	for i := range b {
		if c.R.Bool() && b[i] >= 'a' && b[i] <= 'z' {
			b[i] -= 32
		}
	}
	path := filepath.Join(c.TmpDir(), "alt-entry."+string(b))
	if err := os.WriteFile(path, doc, 0o644); err != nil {
		return ""
	}
	defer os.Remove(path)
	want := deepDump(ref)
	var s1, s2 *astisub.Subtitles
	var e1, e2 error
	o := astisub.Options{Filename: path}
	if stlOpts != nil {
		o.STL = *stlOpts
	}
	if p := guard(func() {
		if stlOpts == nil {
			s1, e1 = astisub.OpenFile(path)
		}
		s2, e2 = astisub.Open(o)
	}); p != "" {
		return "OpenFile/Open panicked on a document its reader accepts: " + p
	}
	if stlOpts == nil {
		if e1 != nil {
			return fmt.Sprintf("OpenFile(%q) fails (%v) on a document that the format's reader accepts", filepath.Base(path), e1)
		}
		if got := deepDump(s1); got != want {
			return fmt.Sprintf("OpenFile(%q) returns something else than the format's reader on the same bytes: %s", filepath.Base(path), firstDiff(want, got))
		}
	}
	if e2 != nil {
		return fmt.Sprintf("Open(Options{Filename: %q}) fails (%v) on a document that the format's reader accepts", filepath.Base(path), e2)
	}
	if got := deepDump(s2); got != want {
		return fmt.Sprintf("Open(Options{Filename: %q}) returns something else than the format's reader on the same bytes: %s", filepath.Base(path), firstDiff(want, got))
	}
	c.Count("documents_also_read_through_OpenFile_and_Open", 1)
	return ""
}

// altWrite writes a list through Subtitles.Write (codec chosen by the extension): the file must hold what the format's
// own writer produced
func altWrite(c *fw.Ctx, ext string, sub *astisub.Subtitles, ref []byte) string {
	path := filepath.Join(c.TmpDir(), "alt-write."+ext)
	defer os.Remove(path)
	var err error
	if p := guard(func() { err = sub.Write(path) }); p != "" || err != nil {
		return fmt.Sprintf("Subtitles.Write(%q) fails (%v %s) on a list that the format's writer accepts", filepath.Base(path), err, p)
	}
	got, _ := os.ReadFile(path)
	if !bytes.Equal(got, ref) {
		return fmt.Sprintf("Subtitles.Write(%q) leaves a file that differs from what the format's writer produced: %s", filepath.Base(path), firstDiff(string(ref), string(got)))
	}
	c.Count("lists_also_written_through_Write", 1)
	return ""
}

// cliIO decides in which formats a CLI case reads and writes: SubRip both ways most of the time, otherwise WebVTT
// (plain, or an HLS segment with an X-TIMESTAMP-MAP header), SSA/ASS or TTML, the extensions in any letter case.
// The unit (ns) of the output format is what cue times are expected truncated to.
type cliFormat struct {
	ext  string
	unit int64
	doc  func(cs []tcue) string
}

var cliFormats = []cliFormat{
	{"srt", 1e6, simpleSRT},
	{"vtt", 1e6, func(cs []tcue) string { return simpleVTT(cs, "") }},
	{"vtt", 1e6, func(cs []tcue) string { return simpleVTT(cs, "X-TIMESTAMP-MAP=LOCAL:00:00:00.000,MPEGTS:900000\n") }},
	{"vtt", 1e6, func(cs []tcue) string { return simpleVTT(cs, "X-TIMESTAMP-MAP=MPEGTS:183003,LOCAL:00:00:02.000\n") }},
	{"ass", 1e7, func(cs []tcue) string { return simpleSSA(cs, true) }},
	{"ssa", 1e7, func(cs []tcue) string { return simpleSSA(cs, false) }},
	{"ttml", 1e6, simpleTTML},
}

func simpleVTT(cs []tcue, header string) string {
	var b strings.Builder
	b.WriteString("WEBVTT\n" + header + "\n")
	for k, c := range cs {
		fmt.Fprintf(&b, "%d\n%s --> %s\n%s\n\n", k+1, strings.Replace(srtTime(c.S), ",", ".", 1), strings.Replace(srtTime(c.E), ",", ".", 1), c.T)
	}
	return b.String()
}

func simpleSSA(cs []tcue, plus bool) string { return simpleSSAFont(cs, plus, "Arial") }

// simpleSSAFont: the one style of the script, Default, uses the given font
func simpleSSAFont(cs []tcue, plus bool, font string) string {
	var b strings.Builder
	if plus {
		b.WriteString("[Script Info]\nScriptType: v4.00+\n\n[V4+ Styles]\nFormat: Name, Fontname, Fontsize\nStyle: Default," + font + ",20\n\n[Events]\nFormat: Layer, Start, End, Style, Name, MarginL, MarginR, MarginV, Effect, Text\n")
	} else {
		b.WriteString("[Script Info]\nScriptType: v4.00\n\n[V4 Styles]\nFormat: Name, Fontname, Fontsize\nStyle: Default," + font + ",20\n\n[Events]\nFormat: Marked, Start, End, Style, Name, MarginL, MarginR, MarginV, Effect, Text\n")
	}
	for _, c := range cs {
		t := func(ns int64) string {
			cs := ns / 1e7
			return fmt.Sprintf("%d:%02d:%02d.%02d", cs/360000, cs/6000%60, cs/100%60, cs%100)
		}
		first := "0"
		if !plus {
			first = "Marked=0"
		}
		fmt.Fprintf(&b, "Dialogue: %s,%s,%s,Default,,0,0,0,,%s\n", first, t(c.S), t(c.E), c.T)
	}
	return b.String()
}

func simpleTTML(cs []tcue) string {
	var b strings.Builder
	// the time expression form varies with the document: clock times, seconds, milliseconds, or ticks of 100 ns
	mode := len(cs) % 4
	if len(cs) > 0 {
		mode = int((int64(len(cs)) + cs[0].S/1e6) % 4)
	}
	expr := func(ns int64) string {
		switch ms := ns / 1e6; mode {
		case 1:
			return fmt.Sprintf("%d.%03ds", ms/1000, ms%1000)
		case 2:
			return fmt.Sprintf("%dms", ms)
		case 3:
			return fmt.Sprintf("%dt", ms*10000)
		}
		return strings.Replace(srtTime(ns), ",", ".", 1)
	}
	b.WriteString(`<?xml version="1.0" encoding="UTF-8"?><tt xmlns="http://www.w3.org/ns/ttml" xmlns:ttp="http://www.w3.org/ns/ttml#parameter" ttp:tickRate="10000000"><body><div>`)
	for _, c := range cs {
		fmt.Fprintf(&b, `<p begin="%s" end="%s">%s</p>`, expr(c.S), expr(c.E), c.T)
	}
	b.WriteString("</div></body></tt>\n")
	return b.String()
}

// cliPickIO draws the input and output formats of a CLI case (SubRip both ways half of the time) and the letter case
// of the extensions; unit is the resolution of the output format
func cliPickIO(r *fw.Rand) (in, out cliFormat, inExt, outExt string, unit int64) {
	in, out = cliFormats[0], cliFormats[0]
	if r.Bool() {
		in = fw.Pick(r, cliFormats)
	}
	if r.Bool() {
		out = fw.Pick(r, cliFormats)
	}
	mix := func(e string) string {
		b := []byte(e)
		for i := range b {
			if r.P(1, 3) {
				b[i] -= 32
			}
		}
		return string(b)
	}
	return in, out, mix(in.ext), mix(out.ext), out.unit
}

// cliFiles rounds the cues to what the input format can hold, writes the input document and chooses the output path
// (fresh, over a longer earlier file, or the input itself); it returns both paths, the resolution to expect in the
// output and a description of the formats
func cliFiles(c *fw.Ctx, r *fw.Rand, cs []tcue) (in, out string, unit int64, desc string) {
	fi, fo, ei, eo, unit := cliPickIO(r)
	for i := range cs {
		cs[i].S, cs[i].E = cs[i].S/fi.unit*fi.unit, cs[i].E/fi.unit*fi.unit
	}
	// file names as they come: blanks, commas, brackets, a percent sign, letters beyond ASCII
	dir := c.TmpDir()
	if r.P(1, 6) {
		// a path that goes through a symbolic link and back up: "cur/.." is the parent of what the link points to (the
		// operating system resolves the link first), not the directory the link lies in
		os.MkdirAll(filepath.Join(dir, "real", "deep"), 0o755)
		os.Symlink(filepath.Join("real", "deep"), filepath.Join(dir, "cur"))
		dir = dir + string(filepath.Separator) + "cur" + string(filepath.Separator) + ".."
	}
	in = dir + string(filepath.Separator) + fw.Pick(r, []string{"in", "in", "The Good, the Bad [en] 100%", "Épisode 1 (v2)", "a*b?c"}) + "." + ei
	out = dir + string(filepath.Separator) + fw.Pick(r, []string{"out", "out", "seg_%03d, [final]", "été 50% off"}) + "." + eo
	os.WriteFile(in, []byte(fi.doc(cs)), 0o644)
	out = outPath(r, in, out)
	if out == in {
		unit, eo = fi.unit, ei // converted in place: the file keeps its format
	}
	_ = fo
	return in, out, unit, fmt.Sprintf("%s -> %s", ei, eo)
}

// outPath prepares the place a CLI or Write case writes to: a fresh path, a path that already holds a much longer
// file (which has to be replaced as a whole, not overwritten in part), or - when the caller allows it - the input
// path itself (converting a file in place)
func outPath(r *fw.Rand, in, fresh string) string {
	switch r.Intn(3) {
	case 1:
		os.WriteFile(fresh, []byte(strings.Repeat("9\n99:59:58,000 --> 99:59:59,000\nleft over from an earlier, longer file\n\n", 400)), 0o644)
		return fresh
	case 2:
		if in != "" {
			return in
		}
	}
	os.Remove(fresh)
	return fresh
}

// Unicode sweep of the text codecs: every block of 256 code points is written as the text of cues (32 characters to
// a cue, one run) and read back; each cue must come back with exactly its text. White space, controls, surrogates,
// the two noncharacters XML forbids and the few ASCII characters with a meaning in the format's markup are left out
// (the random models cover those). quick: the 256 blocks of the BMP and one block of every other plane; thorough: all.
func sweepBlocks(tier string) int64 { return tierN(tier, 256+16, 0x1100) }

func sweepBlock(tier string, k int64) int {
	if tier == "thorough" || k < 256 {
		return int(k)
	}
	return int(k-256+1)*256 + int(k%7)*31 // a block of plane 1..16
}

func sweepCase(c *fw.Ctx, k int64, format, skip string, write func(*astisub.Subtitles, *bytes.Buffer) error, read func([]byte) (*astisub.Subtitles, error)) fw.Outcome {
	block := sweepBlock(c.Tier, k)
	s := astisub.NewSubtitles()
	var want []string
	for q := 0; q < 8; q++ {
		var b strings.Builder
		for j := 0; j < 32; j++ {
			r := rune(block*256 + q*32 + j)
			if r > 0x10ffff || (r >= 0xd800 && r < 0xe000) || r == 0xfffe || r == 0xffff || unicode.IsSpace(r) || unicode.IsControl(r) || strings.ContainsRune(skip, r) {
				continue
			}
			b.WriteRune(r)
		}
		if b.Len() == 0 {
			continue
		}
		want = append(want, b.String())
		s.Items = append(s.Items, textItem(time.Duration(len(want))*time.Second, time.Duration(len(want)+1)*time.Second, b.String()))
	}
	key := fw.Mix(fw.HashString(format), uint64(block), 0x5eeb)
	if len(want) == 0 {
		return fw.Skip()
	}
	var buf bytes.Buffer
	var err error
	var got *astisub.Subtitles
	if p := guard(func() {
		if err = write(s, &buf); err == nil {
			got, err = read(buf.Bytes())
		}
	}); p != "" || err != nil {
		return fw.Bad(key, buf.String(), "%s: writing and re-reading the code points U+%04X..U+%04X failed: %v %s", format, block*256, block*256+255, err, p)
	}
	if len(got.Items) != len(want) {
		return fw.Bad(key, buf.String(), "%s: %d cues holding the code points U+%04X..U+%04X written, %d read back", format, len(want), block*256, block*256+255, len(got.Items))
	}
	for i, it := range got.Items {
		if t := itemText(it); t != want[i] {
			return fw.Bad(key, buf.String(), "%s: text made of the code points U+%04X.. does not survive writing and reading: %s", format, block*256+i*32, firstDiff(fmt.Sprintf("%+q", want[i]), fmt.Sprintf("%+q", t)))
		}
	}
	c.Count("unicode_blocks_round_tripped", 1)
	c.Feature("unicode sweep")
	return fw.OK(key, fmt.Sprintf("%s U+%04X..U+%04X", format, block*256, block*256+255))
}

// mixEOL replaces every LF of a document rendered with LF line ends by LF, CRLF or (when no LF follows) a lone CR,
// drawn per line: a file that went through several editors
func mixEOL(r *fw.Rand, doc []byte) []byte {
	out := make([]byte, 0, len(doc)+len(doc)/8)
	for i, b := range doc {
		if b != '\n' {
			out = append(out, b)
			continue
		}
		switch r.Intn(3) {
		case 0:
			out = append(out, '\n')
		case 1:
			out = append(out, '\r', '\n')
		default:
			if i+1 < len(doc) && doc[i+1] == '\n' {
				out = append(out, '\r', '\n')
			} else {
				out = append(out, '\r')
			}
		}
	}
	return out
}

// listSize draws a list length: mostly small (0..small), now and then long, now and then right at the sizes where a
// size-dependent code path would switch (insertion sort -> quick sort at 12, chunking or searching at 64/256/1024)
func listSize(r *fw.Rand, small int) int {
	if r.P(1, 150) {
		// a long script (a merged season, a karaoke file): around the sizes where work might be split into chunks
		return fw.Pick(r, []int{4095, 4096, 4097, 4098, 4099, 8191, 8193, 10001})
	}
	switch r.Intn(12) {
	case 0:
		return r.Range(small, 10*small)
	case 1:
		return fw.Pick(r, []int{11, 12, 13, 14, 63, 64, 65, 127, 128, 129, 255, 256, 257, 511, 512, 513, 1023, 1024, 1025})
	}
	return r.Intn(small + 1)
}

// someMetadata gives a list the metadata of the format it may have come from (frame-based STL, TTML, WebVTT with a
// timestamp map, SSA, teletext: none at all): the timing transformations are about cues only
func someMetadata(sub *astisub.Subtitles, k int) {
	switch k % 7 {
	case 0:
		sub.Metadata = nil
	case 1:
		sub.Metadata = &astisub.Metadata{}
	case 2:
		sub.Metadata = &astisub.Metadata{Framerate: 25, STLDisplayStandardCode: "0", STLTimecodeStartOfProgramme: 10 * time.Hour}
	case 3:
		sub.Metadata = &astisub.Metadata{Framerate: 30, Title: "t"}
	case 4:
		sub.Metadata = &astisub.Metadata{Framerate: 24, Language: astisub.LanguageFrench, Title: "t", TTMLCopyright: "c"}
	case 5:
		sub.Metadata = &astisub.Metadata{WebVTTTimestampMap: &astisub.WebVTTTimestampMap{Local: time.Second, MpegTS: 900000}}
	case 6:
		sub.Metadata = &astisub.Metadata{Framerate: 7, SSAScriptType: "v4.00+"}
	}
}

// prewarm gives the list a past: with the cues parked on [0,1) [3,4) [6,7) .. (already ordered, nothing touching) it is
// ordered, fragmented with a period beyond the end, unfragmented, shifted forth and back, forced to a duration beyond
// the end and corrected with the identity map - none of which changes anything - and then the cues get their real times
// back through the public fields. What a later call does must depend on the list as it is now.
func prewarm(sub *astisub.Subtitles) {
	type se struct{ s, e time.Duration }
	save := make([]se, len(sub.Items))
	for k, it := range sub.Items {
		save[k] = se{it.StartAt, it.EndAt}
		it.StartAt, it.EndAt = time.Duration(3*k), time.Duration(3*k+1)
	}
	n := len(sub.Items)
	sub.Order()
	sub.Fragment(time.Duration(3*n + 7))
	sub.Unfragment()
	sub.Add(5)
	sub.Add(-5)
	sub.ForceDuration(time.Duration(3*n+7), false)
	sub.ApplyLinearCorrection(0, 0, time.Second, time.Second)
	sub.Order()
	if len(sub.Items) != n {
		panic("prewarm changed the number of cues")
	}
	for k, it := range sub.Items {
		it.StartAt, it.EndAt = save[k].s, save[k].e
	}
}

func itemText(i *astisub.Item) string {
	var ls []string
	for _, l := range i.Lines {
		var t string
		for _, li := range l.Items {
			t += li.Text
		}
		ls = append(ls, t)
	}
	return strings.Join(ls, "\n")
}

type tcue struct {
	S, E int64
	T    string
}

func (c tcue) String() string { return fmt.Sprintf("[%d,%d)%s", c.S, c.E, c.T) }

func cuesOf(items []*astisub.Item) []tcue {
	out := make([]tcue, len(items))
	for k, i := range items {
		out[k] = tcue{int64(i.StartAt), int64(i.EndAt), itemText(i)}
	}
	return out
}

func fmtCues(cs []tcue) string {
	var s []string
	for _, c := range cs {
		s = append(s, c.String())
	}
	return strings.Join(s, " ")
}

func hashCues(cs []tcue, extra ...uint64) uint64 {
	h := fw.Mix(extra...)
	for _, c := range cs {
		h = fw.Mix(h, uint64(c.S), uint64(c.E), fw.HashString(c.T))
	}
	return h
}

// cli runs the command-line tool built from /repo for this check
func cli(args ...string) (out string, err error) {
	path := os.Getenv("VERIF_CLI")
	if path == "" {
		return "", fmt.Errorf("VERIF_CLI not set")
	}
	cmd := exec.Command(path, args...)
	b, err := cmd.CombinedOutput()
	return string(b), err
}

func haveCLI() bool { return os.Getenv("VERIF_CLI") != "" }

var _ = io.Discard
