package props

import (
	"bytes"
	"fmt"
	"io"
	"regexp"
	"sort"
	"strconv"
	"strings"
	"testing/iotest"
	"time"
	"unicode"

	astisub "github.com/asticode/go-astisub"
	"golang.org/x/text/unicode/norm"
	"verif/harness/fw"
)

// C05 EBU STL fidelity. The Latin table below is the harness's own transcription of EBU Tech 3264 appendix 2
// (ISO 6937/2-1983): 0x24 is the currency sign there, 0xA4 the dollar sign.

var stlLatin = func() map[byte]string {
	m := map[byte]string{}
	for c := byte(0x20); c <= 0x7e; c++ {
		m[c] = string(rune(c))
	}
	m[0x24] = "¤"
	hi := map[byte]string{
		0xa0: "\u00a0", 0xa1: "¡", 0xa2: "¢", 0xa3: "£", 0xa4: "$", 0xa5: "¥", 0xa7: "§", 0xa8: "¤", 0xa9: "‘", 0xaa: "“", 0xab: "«", 0xac: "←", 0xad: "↑", 0xae: "→", 0xaf: "↓",
		0xb0: "°", 0xb1: "±", 0xb2: "²", 0xb3: "³", 0xb4: "×", 0xb5: "µ", 0xb6: "¶", 0xb7: "·", 0xb8: "÷", 0xb9: "’", 0xba: "”", 0xbb: "»", 0xbc: "¼", 0xbd: "½", 0xbe: "¾", 0xbf: "¿",
		0xd0: "―", 0xd1: "¹", 0xd2: "®", 0xd3: "©", 0xd4: "™", 0xd5: "♪", 0xd6: "¬", 0xd7: "¦", 0xdc: "⅛", 0xdd: "⅜", 0xde: "⅝", 0xdf: "⅞",
		0xe0: "Ω", 0xe1: "Æ", 0xe2: "Đ", 0xe3: "ª", 0xe4: "Ħ", 0xe6: "Ĳ", 0xe7: "Ŀ", 0xe8: "Ł", 0xe9: "Ø", 0xea: "Œ", 0xeb: "º", 0xec: "Þ", 0xed: "Ŧ", 0xee: "Ŋ", 0xef: "ŉ",
		0xf0: "ĸ", 0xf1: "æ", 0xf2: "đ", 0xf3: "ð", 0xf4: "ħ", 0xf5: "ı", 0xf6: "ĳ", 0xf7: "ŀ", 0xf8: "ł", 0xf9: "ø", 0xfa: "œ", 0xfb: "ß", 0xfc: "þ", 0xfd: "ŧ", 0xfe: "ŋ", 0xff: "\u00ad",
	}
	for k, v := range hi {
		m[k] = v
	}
	return m
}()

// floating diacritics: code -> combining character
var stlDiacritics = map[byte]string{0xc1: "\u0300", 0xc2: "\u0301", 0xc3: "\u0302", 0xc4: "\u0303", 0xc5: "\u0304", 0xc6: "\u0306", 0xc7: "\u0307", 0xc8: "\u0308",
	0xca: "\u030a", 0xcb: "\u0327", 0xcd: "\u030b", 0xce: "\u0328", 0xcf: "\u030c"}

var stlDiaCodes = []byte{0xc1, 0xc2, 0xc3, 0xc4, 0xc5, 0xc6, 0xc7, 0xc8, 0xca, 0xcb, 0xcd, 0xce, 0xcf}

// stlDecodeChars decodes text bytes (no control/style codes) with the table above; floating diacritics are
// composed onto the following character (NFC)
func stlDecodeChars(b []byte) string {
	var out strings.Builder
	accent := ""
	for _, c := range b {
		if d, ok := stlDiacritics[c]; ok {
			accent = d
			continue
		}
		s, ok := stlLatin[c]
		if !ok {
			continue
		}
		if accent != "" {
			s = norm.NFC.String(s + accent)
			accent = ""
		}
		out.WriteString(s)
	}
	return out.String()
}

type stlStyle struct {
	Italic, Underline, Boxing bool
	Color                     string // teletext display standards only: "rrggbb" or ""
	DH, DW, DS                bool
}

type stlRun struct {
	Text  string
	Style stlStyle
}

type stlCue struct {
	TCI, TCO [4]byte
	VP, JC   byte
	Rows     [][]stlRun // expected runs per row (rows without runs do not produce a line)
	NRows    int        // number of rows in the text field (STLPosition.Rows)
	tf       []byte     // reader direction: the encoded text field
	ebn      byte       // reader direction: extension block number to use when not 0 (0x01: more blocks follow, 0xff: last)
	start    int64      // writer direction: ns
	end      int64
}

type stlGSI struct {
	FPS                                                int
	DSC                                                string
	LC                                                 string
	OPT, OET, TPT, TET, TN, TCD, SLR, CO, PUB, EN, ECD string
	CD, RD                                             string // yymmdd or ""
	RN, MNC, MNR                                       int
	TCP                                                [4]int // h m s f
	Lang                                               string
}

type stlModel struct {
	G    stlGSI
	Cues []stlCue
	// reader direction: the blocks in file order (cue index or -1 for a user-data block)
	order []int
}

// canonical runs: trim, drop empty, merge neighbours with identical style with one space (a spacing attribute
// occupies a character cell)
func stlCanon(runs []stlRun) []stlRun {
	var out []stlRun
	for _, r := range runs {
		t := strings.TrimFunc(r.Text, unicode.IsSpace)
		if t == "" {
			continue
		}
		t = norm.NFC.String(t)
		if n := len(out); n > 0 && out[n-1].Style == r.Style {
			out[n-1].Text += " " + t
		} else {
			out = append(out, stlRun{t, r.Style})
		}
	}
	return out
}

func stlDenoteRows(rows [][]stlRun) string {
	var b strings.Builder
	for _, row := range rows {
		c := stlCanon(row)
		if len(c) == 0 {
			continue
		}
		b.WriteString("  | ")
		for _, r := range c {
			fmt.Fprintf(&b, "%q%+v ", r.Text, r.Style)
		}
		b.WriteString("\n")
	}
	return b.String()
}

func stlTimeNs(tc [4]byte, fps int) int64 {
	return (int64(tc[0])*3600+int64(tc[1])*60+int64(tc[2]))*1e9 + (int64(tc[3])*1e9+int64(fps)-1)/int64(fps)
}

func stlTCPns(g stlGSI) int64 {
	return stlTimeNs([4]byte{byte(g.TCP[0]), byte(g.TCP[1]), byte(g.TCP[2]), byte(g.TCP[3])}, g.FPS)
}

var stlLangCodes = map[string]string{"75": "chinese", "09": "english", "0F": "french", "69": "japanese", "1E": "norwegian"}

func stlMetaDenote(g stlGSI, ignoreTCP bool, withLang bool) string {
	tcp := stlTCPns(g)
	if ignoreTCP {
		tcp = 0
	}
	lang := ""
	if withLang {
		lang = g.Lang
	}
	return fmt.Sprintf("fps=%d dsc=%q lang=%q title=%q oet=%q tpt=%q tet=%q tn=%q tcd=%q slr=%q co=%q pub=%q en=%q ecd=%q cd=%q rd=%q rn=%d mnc=%d mnr=%d tcp(x10ns)=%d\n",
		g.FPS, g.DSC, lang, g.OPT, g.OET, g.TPT, g.TET, g.TN, g.TCD, g.SLR, g.CO, g.PUB, g.EN, g.ECD, stlDateDenote(g.CD, 0), stlDateDenote(g.RD, 0), g.RN, g.MNC, g.MNR, tcp/10)
}

// stlDateDenote spells a GSI date (yymmdd) with its century: the format dates from 1991, so 91..99 are the nineties
// and 00..68 this century (69..90 mean nothing sensible and are left open). year is what a reader made of it (0 on
// the model's side)
func stlDateDenote(d string, year int) string {
	if len(d) != 6 {
		return d
	}
	yy, err := strconv.Atoi(d[:2])
	if err != nil || (yy > 68 && yy < 91) {
		return "??" + d
	}
	if year == 0 {
		year = 2000 + yy
		if yy >= 91 {
			year = 1900 + yy
		}
	}
	return fmt.Sprintf("%04d%s", year, d[2:])
}

func stlProjectMeta(md *astisub.Metadata) string {
	if md == nil {
		return "no metadata\n"
	}
	g := stlGSI{FPS: md.Framerate, DSC: md.STLDisplayStandardCode, OPT: md.Title, OET: md.STLOriginalEpisodeTitle, TPT: md.STLTranslatedProgramTitle, TET: md.STLTranslatedEpisodeTitle,
		TN: md.STLTranslatorName, TCD: md.STLTranslatorContactDetails, SLR: md.STLSubtitleListReferenceCode, CO: md.STLCountryOfOrigin, PUB: md.STLPublisher, EN: md.STLEditorName,
		ECD: md.STLEditorContactDetails, RN: md.STLRevisionNumber, Lang: md.Language}
	if md.STLCreationDate != nil && !md.STLCreationDate.IsZero() {
		g.CD = stlDateDenote(md.STLCreationDate.Format("060102"), md.STLCreationDate.Year())
	}
	if md.STLRevisionDate != nil && !md.STLRevisionDate.IsZero() {
		g.RD = stlDateDenote(md.STLRevisionDate.Format("060102"), md.STLRevisionDate.Year())
	}
	if md.STLMaximumNumberOfDisplayableCharactersInAnyTextRow != nil {
		g.MNC = *md.STLMaximumNumberOfDisplayableCharactersInAnyTextRow
	}
	if md.STLMaximumNumberOfDisplayableRows != nil {
		g.MNR = *md.STLMaximumNumberOfDisplayableRows
	}
	s := stlMetaDenote(g, true, true)
	return strings.Replace(s, "tcp(x10ns)=0\n", fmt.Sprintf("tcp(x10ns)=%d\n", int64(md.STLTimecodeStartOfProgramme)/10), 1)
}

func stlColorName(c *astisub.Color) string {
	if c == nil {
		return ""
	}
	return fmt.Sprintf("%02x%02x%02x", c.Red, c.Green, c.Blue)
}

func bp(b *bool) bool { return b != nil && *b }

func stlProjectItem(it *astisub.Item) (rows [][]stlRun, vp, jc, maxRows, nrows int) {
	for _, l := range it.Lines {
		var runs []stlRun
		for _, li := range l.Items {
			r := stlRun{Text: li.Text}
			if sa := li.InlineStyle; sa != nil {
				r.Style = stlStyle{Italic: bp(sa.STLItalics), Underline: bp(sa.STLUnderline), Boxing: bp(sa.STLBoxing), Color: stlColorName(sa.TeletextColor),
					DH: bp(sa.TeletextDoubleHeight), DW: bp(sa.TeletextDoubleWidth), DS: bp(sa.TeletextDoubleSize)}
			}
			runs = append(runs, r)
		}
		rows = append(rows, runs)
	}
	vp, jc = -1, -1
	if sa := it.InlineStyle; sa != nil {
		if sa.STLPosition != nil {
			vp, maxRows, nrows = sa.STLPosition.VerticalPosition, sa.STLPosition.MaxRows, sa.STLPosition.Rows
		}
		if sa.STLJustification != nil {
			switch *sa.STLJustification {
			case astisub.JustificationUnchanged:
				jc = 0
			case astisub.JustificationLeft:
				jc = 1
			case astisub.JustificationCentered:
				jc = 2
			case astisub.JustificationRight:
				jc = 3
			}
		}
	}
	return
}

// ---------------------------------------------------------------------------------------------------------------
// generator + encoder (reader direction)

var stlAscii = []string{"gsi", "Title test", "Copyright 2020", "a-b_c", "X", "Name Surname", "12345678", "+33 1 23 45 67 89", "mail@example.com"}

func stlPad(s string, n int) []byte {
	b := []byte(s)
	for len(b) < n {
		b = append(b, ' ')
	}
	return b[:n]
}

func stlEncodeGSI(g stlGSI, nblocks, ncues int) []byte {
	b := make([]byte, 0, 1024)
	b = append(b, "850"...)
	b = append(b, fmt.Sprintf("STL%d.01", g.FPS)...)
	b = append(b, stlPad(g.DSC, 1)...)
	b = append(b, "00"...)
	b = append(b, stlPad(g.LC, 2)...)
	b = append(b, stlPad(g.OPT, 32)...)
	b = append(b, stlPad(g.OET, 32)...)
	b = append(b, stlPad(g.TPT, 32)...)
	b = append(b, stlPad(g.TET, 32)...)
	b = append(b, stlPad(g.TN, 32)...)
	b = append(b, stlPad(g.TCD, 32)...)
	b = append(b, stlPad(g.SLR, 16)...)
	b = append(b, stlPad(g.CD, 6)...)
	b = append(b, stlPad(g.RD, 6)...)
	b = append(b, fmt.Sprintf("%02d%05d%05d001%02d%02d1", g.RN, nblocks, ncues, g.MNC, g.MNR)...)
	b = append(b, fmt.Sprintf("%02d%02d%02d%02d", g.TCP[0], g.TCP[1], g.TCP[2], g.TCP[3])...)
	b = append(b, "00000000"...) // TCF
	b = append(b, "11"...)
	b = append(b, stlPad(g.CO, 3)...)
	b = append(b, stlPad(g.PUB, 32)...)
	b = append(b, stlPad(g.EN, 32)...)
	b = append(b, stlPad(g.ECD, 32)...)
	for len(b) < 1024 {
		b = append(b, ' ')
	}
	return b
}

type stlLetter struct {
	bytes []byte
}

// all characters of the table, as byte sequences (single codes and diacritic+letter pairs)
func stlRandomChars(r *fw.Rand, n int) []byte {
	var out []byte
	for i := 0; i < n; i++ {
		switch r.Intn(10) {
		case 0, 1: // diacritic + base letter (composable or not)
			out = append(out, fw.Pick(r, stlDiaCodes))
			out = append(out, byte(fw.Pick(r, []int{'a', 'e', 'i', 'o', 'u', 'A', 'E', 'O', 'U', 'c', 'C', 'n', 'N', 's', 'z', 'y', 'x', 'q', 'g', 'r', ' '})))
		case 2, 3: // upper table
			for {
				c := byte(0xa0 + r.Intn(0x60))
				if _, ok := stlLatin[c]; ok {
					out = append(out, c)
					break
				}
			}
		case 4:
			out = append(out, ' ')
		default:
			out = append(out, byte(0x21+r.Intn(0x5e)))
		}
	}
	return out
}

var stlTeletextColors = []string{"000000", "ff0000", "008000", "ffff00", "0000ff", "ff00ff", "00ffff", "ffffff"}

// stlGenRow builds one row of the text field and what it denotes
func stlGenRow(r *fw.Rand, dsc string, enumerate []byte) (tf []byte, runs []stlRun) {
	var st stlStyle
	cur := stlRun{}
	started := dsc == "0"
	flush := func() {
		runs = append(runs, cur)
		cur = stlRun{Style: st}
	}
	emitText := func(b []byte) {
		tf = append(tf, b...)
		if started {
			cur.Text += stlDecodeChars(b)
		}
	}
	ntok := r.Range(1, 6)
	if enumerate != nil {
		ntok = 1
	}
	if dsc != "0" {
		// text before the start box contributes nothing
		if r.P(1, 4) {
			emitText([]byte("unboxed"))
		}
		if r.P(1, 3) {
			c := r.Intn(8)
			tf = append(tf, byte(c))
			st.Color = stlTeletextColors[c]
			cur.Style = st
		}
		if r.P(1, 4) {
			tf = append(tf, 0x0d)
			st.DH = true
			cur.Style = st
		}
		if r.P(1, 4) {
			// italics, underline or boxing switched on ahead of the box: in force for the text inside it
			switch r.Intn(3) {
			case 0:
				tf = append(tf, 0x80)
				st.Italic = true
			case 1:
				tf = append(tf, 0x82)
				st.Underline = true
			default:
				tf = append(tf, 0x84)
				st.Boxing = true
			}
			cur.Style = st
		}
		tf = append(tf, 0x0b)
		if r.Bool() {
			tf = append(tf, 0x0b)
		}
		started = true
	}
	for k := 0; k < ntok; k++ {
		if enumerate != nil {
			emitText(enumerate)
			continue
		}
		if k > 0 || r.P(1, 3) {
			// a spacing attribute
			var code byte
			switch {
			case dsc != "0" && r.P(1, 3):
				// a colour code that repeats the colour in force is not generated: whether the cell it occupies
				// counts as a space is not settled by the property
				code = byte(r.Intn(8))
				for stlTeletextColors[code] == st.Color {
					code = byte(r.Intn(8))
				}
				if started {
					flush()
				}
				st.Color = stlTeletextColors[code]
			case dsc != "0" && r.P(1, 4):
				code = byte(0x0c + r.Intn(4))
				if started {
					flush()
				}
				switch code {
				case 0x0c:
					st.DH, st.DW, st.DS = false, false, false
				case 0x0d:
					st.DH = true
				case 0x0e:
					st.DW = true
				case 0x0f:
					st.DS = true
				}
			default:
				code = byte(0x80 + r.Intn(6))
				if started {
					flush()
				}
				switch code {
				case 0x80:
					st.Italic = true
				case 0x81:
					st.Italic = false
				case 0x82:
					st.Underline = true
				case 0x83:
					st.Underline = false
				case 0x84:
					st.Boxing = true
				case 0x85:
					st.Boxing = false
				}
			}
			tf = append(tf, code)
			cur.Style = st
		}
		n := r.Range(1, 5)
		chunk := stlRandomChars(r, n)
		// never end a chunk on a floating diacritic
		if r.P(1, 3) {
			chunk = append([]byte{' '}, chunk...)
		}
		if r.P(1, 3) {
			chunk = append(chunk, ' ')
		}
		emitText(chunk)
	}
	flush()
	if dsc != "0" {
		if r.Bool() {
			tf = append(tf, 0x0a, 0x0a)
			if r.P(1, 3) {
				tf = append(tf, "tail"...) // after the end box: contributes nothing
			}
		}
	}
	return
}

func stlGenGSI(r *fw.Rand) stlGSI {
	g := stlGSI{FPS: fw.Pick(r, []int{25, 30}), DSC: fw.Pick(r, []string{"0", "1", "2"}), RN: r.Intn(100), MNC: r.Range(1, 99), MNR: fw.Pick(r, []int{23, 23, 11, r.Range(1, 99), r.Range(1, 99), r.Range(1, 99)})}
	g.LC = fw.Pick(r, []string{"75", "09", "0F", "69", "1E", "0A", "  "})
	g.Lang = stlLangCodes[g.LC]
	str := func() string {
		if r.Bool() {
			return ""
		}
		return fw.Pick(r, stlAscii)
	}
	g.OPT, g.OET, g.TPT, g.TET, g.TN, g.TCD, g.PUB, g.EN, g.ECD = str(), str(), str(), str(), str(), str(), str(), str(), str()
	if len(g.SLR) == 0 && r.Bool() {
		g.SLR = "12345678"
	}
	g.CO = fw.Pick(r, []string{"FRA", "NOR", "", "GBR"})
	if r.Bool() {
		g.CD = fmt.Sprintf("%02d%02d%02d", r.Intn(100), r.Range(1, 12), r.Range(1, 28))
	}
	if r.Bool() {
		g.RD = fmt.Sprintf("%02d%02d%02d", r.Intn(100), r.Range(1, 12), r.Range(1, 28))
	}
	switch r.Intn(4) {
	case 1:
		g.TCP = [4]int{10, 0, 0, 0}
	case 2:
		g.TCP = [4]int{r.Intn(3), r.Intn(60), r.Intn(60), r.Intn(g.FPS)}
	case 3:
		g.TCP = [4]int{fw.Pick(r, []int{9, 22, 23}), 59, 58, r.Intn(g.FPS)}
	}
	return g
}

func stlGenTC(r *fw.Rand, fps int, minH int) [4]byte {
	if minH > 23 {
		minH = 23 // (the caller makes sure the programme start is before 23:00:00:00 in that case)
	}
	f := byte(fw.Pick(r, []int{0, 1, fps - 1, r.Intn(fps)}))
	switch r.Intn(4) {
	case 0:
		return [4]byte{byte(minH + r.Intn(24-minH)), 59, 59, f}
	case 1:
		return [4]byte{byte(minH + r.Intn(24-minH)), 0, 0, f}
	}
	return [4]byte{byte(minH + r.Intn(24-minH)), byte(r.Intn(60)), byte(r.Intn(60)), f}
}

func stlGenModel(r *fw.Rand, enumerate [][]byte) stlModel {
	m := stlModel{G: stlGenGSI(r)}
	n := r.Intn(6)
	if enumerate != nil {
		n = (len(enumerate) + 7) / 8
		m.G.TCP = [4]int{}
	}
	minH := 0
	if m.G.TCP[0] > 0 || m.G.TCP[1] > 0 || m.G.TCP[2] > 0 || m.G.TCP[3] > 0 {
		if m.G.TCP[0] >= 23 {
			m.G.TCP[0] = 22 // reader direction: in/out cues (hours < 24 in the file) stay after the programme start
		}
		minH = m.G.TCP[0] + 1 // keep in/out cues after the programme start
	}
	for k := 0; k < n; k++ {
		c := stlCue{TCI: stlGenTC(r, m.G.FPS, minH), TCO: stlGenTC(r, m.G.FPS, minH), VP: byte(r.Intn(30)), JC: byte(r.Intn(4))}
		if n := len(m.Cues); n > 0 && r.P(1, 8) {
			c.TCI, c.TCO = m.Cues[n-1].TCI, m.Cues[n-1].TCO // two cues over the same interval
		}
		if m.G.TCP[0] > 0 && enumerate == nil && r.P(1, 8) {
			// a cue of the pre-roll (line-up, clock): its timecodes lie before the programme start, the instants it
			// denotes relative to the programme are negative
			c.TCI[0], c.TCO[0] = byte(r.Intn(m.G.TCP[0])), byte(r.Intn(m.G.TCP[0]))
		}
		nrows := r.Range(1, 3)
		if enumerate != nil {
			nrows = 8
		}
		for j := 0; j < nrows; j++ {
			var en []byte
			if enumerate != nil {
				i := k*8 + j
				if i >= len(enumerate) {
					break
				}
				en = enumerate[i]
			}
			tf, runs := stlGenRow(r, m.G.DSC, en)
			if len(c.tf)+len(tf)+1 > 112 {
				break
			}
			if j > 0 {
				c.tf = append(c.tf, 0x8a)
			}
			c.tf = append(c.tf, tf...)
			c.Rows = append(c.Rows, runs)
			c.NRows++
		}
		m.Cues = append(m.Cues, c)
		m.order = append(m.order, k)
		if enumerate == nil && r.P(1, 4) {
			m.order = append(m.order, -1) // a user-data block
		}
	}
	if enumerate == nil && m.G.DSC == "0" && r.P(1, 10) {
		// a subtitle too long for one text field, continued in an extension block, and the field ends between a
		// floating diacritic and its letter: the letter at the head of the next block carries the diacritic
		tci, tco := stlGenTC(r, m.G.FPS, minH), stlGenTC(r, m.G.FPS, minH)
		head := strings.Repeat("abcdefghij ", 10) + "x" // 111 characters
		a := stlCue{TCI: tci, TCO: tco, VP: 20, JC: 2, tf: append([]byte(head), 0xc2), ebn: 0x01, NRows: 1, Rows: [][]stlRun{{{Text: head}}}}
		bq := stlCue{TCI: tci, TCO: tco, VP: 20, JC: 2, tf: []byte("ecole"), ebn: 0xff, NRows: 1, Rows: [][]stlRun{{{Text: "\u00e9cole"}}}}
		for _, c := range []stlCue{a, bq} {
			m.order = append(m.order, len(m.Cues))
			m.Cues = append(m.Cues, c)
		}
	}
	if enumerate == nil && r.P(1, 5) {
		m.order = append([]int{-1}, m.order...)
	}
	return m
}

func stlEncodeDoc(m stlModel, r *fw.Rand) []byte {
	b := stlEncodeGSI(m.G, len(m.order), len(m.Cues))
	for sn, k := range m.order {
		blk := make([]byte, 0, 128)
		if k < 0 {
			blk = append(blk, 0, byte(sn), byte(sn>>8), 0xfe, 0)
			for len(blk) < 128 {
				blk = append(blk, byte(r.Intn(256)))
			}
			b = append(b, blk...)
			continue
		}
		c := m.Cues[k]
		// extension block number: 0xFF (last block of a subtitle) or any other value but 0xFE (user data): each is one cue
		ebn := fw.Pick(r, []byte{0xff, 0xff, 0xff, 0x00, 0x01, 0xef, 0xfd})
		if c.ebn != 0 {
			ebn = c.ebn
		}
		blk = append(blk, byte(r.Intn(3)), byte(sn+1), byte((sn+1)>>8), ebn, byte(r.Intn(4)))
		blk = append(blk, c.TCI[:]...)
		blk = append(blk, c.TCO[:]...)
		blk = append(blk, c.VP, c.JC, byte(r.Intn(2)))
		blk = append(blk, c.tf...)
		for len(blk) < 128 {
			blk = append(blk, 0x8f)
		}
		b = append(b, blk...)
	}
	return b
}

func stlExpectCues(m stlModel, ignoreTCP bool) string {
	var b strings.Builder
	tcp := stlTCPns(m.G)
	if ignoreTCP {
		tcp = 0
	}
	for k, c := range m.Cues {
		fmt.Fprintf(&b, "cue %d: %d-%d vp=%d jc=%d maxrows=%d rows=%d\n", k, stlTimeNs(c.TCI, m.G.FPS)-tcp, stlTimeNs(c.TCO, m.G.FPS)-tcp, c.VP, c.JC, m.G.MNR, c.NRows)
		b.WriteString(stlDenoteRows(c.Rows))
	}
	return b.String()
}

// stlSameWithin1ns compares two cue denotations, allowing the two instants of a "cue k: a-b ..." line to differ by 1 ns
// (a frame of 1/30 s is not a whole number of nanoseconds)
func stlSameWithin1ns(a, b string) bool {
	if a == b {
		return true
	}
	la, lb := strings.Split(a, "\n"), strings.Split(b, "\n")
	if len(la) != len(lb) {
		return false
	}
	for i := range la {
		if la[i] == lb[i] {
			continue
		}
		var k1, k2 int
		var s1, e1, s2, e2 int64
		var r1, r2 string
		n1, _ := fmt.Sscanf(la[i], "cue %d: %d-%d %s", &k1, &s1, &e1, &r1)
		n2, _ := fmt.Sscanf(lb[i], "cue %d: %d-%d %s", &k2, &s2, &e2, &r2)
		if n1 != 4 || n2 != 4 || k1 != k2 || s1-s2 > 1 || s2-s1 > 1 || e1-e2 > 1 || e2-e1 > 1 {
			return false
		}
		// the rest of the line (after the instants) must be identical
		if la[i][strings.Index(la[i], " vp="):] != lb[i][strings.Index(lb[i], " vp="):] {
			return false
		}
	}
	return true
}

func stlProjectCues(s *astisub.Subtitles) string {
	var b strings.Builder
	for k, it := range s.Items {
		rows, vp, jc, mr, nr := stlProjectItem(it)
		fmt.Fprintf(&b, "cue %d: %d-%d vp=%d jc=%d maxrows=%d rows=%d\n", k, int64(it.StartAt), int64(it.EndAt), vp, jc, mr, nr)
		b.WriteString(stlDenoteRows(rows))
	}
	return b.String()
}

// all diacritic x letter pairs + every single code of the table
func stlEnumeration() [][]byte {
	var out [][]byte
	for _, d := range stlDiaCodes {
		for c := byte('A'); c <= 'Z'; c++ {
			out = append(out, []byte{d, c}, []byte{d, c + 32})
		}
		out = append(out, []byte{d, ' '}, []byte{'x', d, 'y', d, 'z'})
	}
	var codes []int
	for c := range stlLatin {
		codes = append(codes, int(c))
	}
	sort.Ints(codes)
	for _, c := range codes {
		out = append(out, []byte{'(', byte(c), ')'})
	}
	return out
}

// c05BlockReader hands out one GSI or TTI block per read
type c05BlockReader struct {
	b   []byte
	off int
}

func (r *c05BlockReader) Read(p []byte) (int, error) {
	if r.off >= len(r.b) {
		return 0, io.EOF
	}
	n := 128
	if r.off == 0 {
		n = 1024
	}
	if n > len(p) {
		n = len(p)
	}
	n = copy(p[:n], r.b[r.off:])
	r.off += n
	return n, nil
}

func c05Reader(c *fw.Ctx, enumerate [][]byte) fw.Outcome {
	model := stlGenModel(c.R, enumerate)
	doc := stlEncodeDoc(model, c.R)
	key := fw.HashBytes(doc)
	for _, ignore := range []bool{false, true} {
		var got *astisub.Subtitles
		var err error
		// the file arrives the way os.File delivers it, or (second pass of every other case) block by block with
		// the last block handed over together with io.EOF
		var src io.Reader = bytes.NewReader(doc)
		if ignore && c.Idx%2 == 1 {
			src = iotest.DataErrReader(&c05BlockReader{b: doc})
		}
		if p := guard(func() {
			got, err = astisub.ReadFromSTL(src, astisub.STLOptions{IgnoreTimecodeStartOfProgramme: ignore})
		}); p != "" {
			return fw.Bad(key, fmt.Sprintf("%x", doc), "reader panicked (ignoreTCP=%v): %s", ignore, p)
		}
		if err != nil {
			return fw.Bad(key, fmt.Sprintf("%x", doc), "reader rejected a well-formed file (fps=%d dsc=%s ignoreTCP=%v): %v", model.G.FPS, model.G.DSC, ignore, err)
		}
		if exp, have := stlMetaDenote(model.G, ignore, true), stlProjectMeta(got.Metadata); exp != have {
			return fw.Bad(key, fmt.Sprintf("%x", doc), "STL reader metadata (ignoreTCP=%v): expected %s got %s", ignore, exp, have)
		}
		if exp, have := stlExpectCues(model, ignore), stlProjectCues(got); !stlSameWithin1ns(exp, have) {
			return fw.Bad(key, fmt.Sprintf("%x", doc), "STL reader (fps=%d dsc=%s ignoreTCP=%v tcp=%v): %s", model.G.FPS, model.G.DSC, ignore, model.G.TCP, firstDiff(exp, have))
		}
		if c.Idx%4 >= 2 {
			// the same bytes through OpenFile (default options) and Open (with the option of this pass)
			var opts *astisub.STLOptions
			if ignore {
				opts = &astisub.STLOptions{IgnoreTimecodeStartOfProgramme: true}
			}
			if msg := altEntryPoints(c, "stl", doc, got, opts); msg != "" {
				return fw.Bad(key, fmt.Sprintf("%x", doc), "%s", msg)
			}
		}
		// the vertical position is also handed on as a line percentage for the other formats: whatever the mapping,
		// a row inside the displayable rows is a percentage between 0 and 100, and a lower row never gets a smaller one
		type pos struct{ vp, line int }
		var seen []pos
		for k, it := range got.Items {
			sa := it.InlineStyle
			if sa == nil || sa.STLPosition == nil || sa.STLPosition.MaxRows <= 0 || sa.STLPosition.VerticalPosition > sa.STLPosition.MaxRows || sa.WebVTTLine == "" {
				continue
			}
			var pc int
			if n, _ := fmt.Sscanf(sa.WebVTTLine, "%d%%", &pc); n != 1 || pc < 0 || pc > 100 {
				return fw.Bad(key, fmt.Sprintf("%x", doc), "STL reader: cue %d stands on row %d of %d, handed on as line %q: not a percentage between 0 and 100", k, sa.STLPosition.VerticalPosition, sa.STLPosition.MaxRows, sa.WebVTTLine)
			}
			for _, o := range seen {
				if (o.vp < sa.STLPosition.VerticalPosition && o.line > pc) || (o.vp > sa.STLPosition.VerticalPosition && o.line < pc) {
					return fw.Bad(key, fmt.Sprintf("%x", doc), "STL reader: row %d of %d is handed on as line %d%% but row %d as line %d%%: the order of rows is not kept", o.vp, sa.STLPosition.MaxRows, o.line, sa.STLPosition.VerticalPosition, pc)
				}
			}
			seen = append(seen, pos{sa.STLPosition.VerticalPosition, pc})
			c.Count("vertical_positions_checked", 1)
		}
	}
	c.Feature(fmt.Sprintf("read fps=%d dsc=%s tcp=%v userdata=%v enum=%v", model.G.FPS, model.G.DSC, model.G.TCP != [4]int{}, len(model.order) > len(model.Cues), enumerate != nil))
	c.Count("reader_files", 1)
	c.Count("reader_cues", int64(len(model.Cues)))
	return fw.OK(key, map[string]interface{}{"direction": "read", "fps": model.G.FPS, "dsc": model.G.DSC, "tcp": model.G.TCP, "cues": trunc(stlExpectCues(model, false), 900)})
}

// ---------------------------------------------------------------------------------------------------------------
// writer direction

var stlWriterWords = []string{"hello", "World", "ça", "naïve", "Dvořák", "Łódź", "Ångström", "crème brûlée", "señor", "Ωmega", "½", "©2020", "100%", "a&b", "it's", "\"q\"", "£5", "¥", "¿qué?", "Œuvre", "ß", "ı", "ĳ", "→", "♪", "[x]", "{y}", "~", "a_b", "Škoda", "Győr", "ţ", "ą", "ż", "¤", "$"}

func stlGenWriterModel(r *fw.Rand) (stlModel, *astisub.Subtitles, string) {
	s := astisub.NewSubtitles()
	var m stlModel
	metaKind := r.Intn(4) // 0 STL metadata, 1 absent, 2 inherited from another format (no STL fields), 3 STL metadata teletext
	g := stlGSI{FPS: 25, DSC: "1", MNC: 40, MNR: 23, CO: "FRA", Lang: "french"}
	switch metaKind {
	case 0, 3:
		g = stlGenGSI(r)
		if metaKind == 0 {
			g.DSC = "0"
		} else {
			g.DSC = fw.Pick(r, []string{"1", "2"})
		}
		if g.Lang == "" {
			g.Lang = "french"
		}
		md := &astisub.Metadata{Framerate: g.FPS, STLDisplayStandardCode: g.DSC, Title: g.OPT, STLOriginalEpisodeTitle: g.OET, STLTranslatedProgramTitle: g.TPT, STLTranslatedEpisodeTitle: g.TET,
			STLTranslatorName: g.TN, STLTranslatorContactDetails: g.TCD, STLSubtitleListReferenceCode: g.SLR, STLCountryOfOrigin: g.CO, STLPublisher: g.PUB, STLEditorName: g.EN,
			STLEditorContactDetails: g.ECD, STLRevisionNumber: g.RN, Language: g.Lang}
		mnc, mnr := g.MNC, g.MNR
		md.STLMaximumNumberOfDisplayableCharactersInAnyTextRow, md.STLMaximumNumberOfDisplayableRows = &mnc, &mnr
		md.STLTimecodeStartOfProgramme = time.Duration(stlTCPns(g))
		if g.CD == "" {
			g.CD = "200102"
		}
		if g.RD == "" {
			g.RD = "200304"
		}
		cd, _ := time.Parse("060102", g.CD)
		rd, _ := time.Parse("060102", g.RD)
		if r.P(1, 3) {
			// the same calendar days expressed in other time zones, close to midnight: the date written is the date the value shows
			z1, z2 := time.FixedZone("east", 11*3600), time.FixedZone("west", -9*3600)
			cd = time.Date(cd.Year(), cd.Month(), cd.Day(), 0, 30, 0, 0, z1)
			rd = time.Date(rd.Year(), rd.Month(), rd.Day(), 23, 45, 0, 0, z2)
		}
		md.STLCreationDate, md.STLRevisionDate = &cd, &rd
		s.Metadata = md
	case 2:
		// what a TTML / WebVTT / SSA parse leaves behind
		// (titles of any length and script: the GSI field holds 32 bytes, the block stays 1024 bytes whatever comes in)
		s.Metadata = &astisub.Metadata{Title: fw.Pick(r, []string{"Inherited", "Inherited", "A title that is a good deal longer than thirty-two bytes", "Les Misérables — l'intégrale restaurée, épisode n° 12 «été»", "日本語のタイトルはとても長いです、三十二バイトを超えます", strings.Repeat("é", 31) + "x", strings.Repeat("x", 31) + "é"}),
			TTMLCopyright: fw.Pick(r, []string{"", "© 2020 Quelqu'un d'autre, tous droits réservés dans le monde entier"}),
			Framerate:     fw.Pick(r, []int{0, 24, 60}), Language: fw.Pick(r, []string{"", "english"})}
		g.OPT = s.Metadata.Title
		g.CO = ""
		if s.Metadata.Language != "" {
			g.Lang = s.Metadata.Language
		}
		g.CD, g.RD = "170702", "170702"
	default:
		g.CD, g.RD = "170702", "170702"
	}
	m.G = g
	n := r.Range(1, 5)
	if r.P(1, 60) {
		n = r.Range(256, 300) // more TTI blocks than a byte can count
	}
	tcp := stlTCPns(g)
	for k := 0; k < n; k++ {
		// frame-aligned instants (C16 covers truncation), relative to the programme start
		fr := func() int64 {
			if tcp > 0 && r.Bool() {
				// any instant of the day relative to the programme start: the timecode in the file may pass 24:00:00:00
				t := stlGenTC(r, g.FPS, 0)
				tot := stlTimeNs(t, g.FPS) + tcp
				// re-align on the frame grid of the file timeline
				sec, sub := tot/1e9, tot%1e9
				fno := sub * int64(g.FPS) / 1e9
				return sec*1e9 + (fno*1e9+int64(g.FPS)-1)/int64(g.FPS) - tcp
			}
			h := g.TCP[0] + boolInt(tcp > 0)
			t := stlGenTC(r, g.FPS, h)
			if v := stlTimeNs(t, g.FPS) - tcp; v >= 0 {
				return v
			}
			return stlTimeNs(stlGenTC(r, g.FPS, 0), g.FPS)
		}
		c := stlCue{start: fr(), end: fr(), VP: byte(r.Range(0, 23)), JC: byte(r.Intn(4))}
		if c.VP == 0 && metaKind != 0 {
			c.VP = 1 // row 0 is the top row of an open-subtitling display; teletext rows are counted from 1
		}
		it := &astisub.Item{StartAt: time.Duration(c.start), EndAt: time.Duration(c.end)}
		if r.P(2, 3) {
			j := []astisub.Justification{astisub.JustificationUnchanged, astisub.JustificationLeft, astisub.JustificationCentered, astisub.JustificationRight}[c.JC]
			it.InlineStyle = &astisub.StyleAttributes{STLJustification: &j, STLPosition: &astisub.STLPosition{VerticalPosition: int(c.VP)}}
			if r.Bool() {
				// what reading an STL file leaves next to the justification, from before the cue was re-justified
				it.InlineStyle.WebVTTAlign = fw.Pick(r, []string{"left", "right", "center"})
			}
		} else {
			c.VP, c.JC = 255, 255 // not set by the model: the writer's choice is not compared
		}
		budget := 100
		for l := 0; l < r.Range(1, 3) && budget > 20; l++ {
			var runs []stlRun
			line := astisub.Line{}
			for q := 0; q < r.Range(1, 3) && budget > 20; q++ {
				var ws []string
				for w := 0; w < r.Range(1, 3); w++ {
					ws = append(ws, fw.Pick(r, stlWriterWords))
				}
				t := strings.Join(ws, " ")
				budget -= 2*len([]rune(norm.NFD.String(t))) + 8
				if budget < 0 {
					break
				}
				st := stlStyle{}
				li := astisub.LineItem{Text: t}
				if r.Bool() {
					st.Italic, st.Underline, st.Boxing = r.P(1, 2), r.P(1, 3), r.P(1, 4)
					tr, i, u, bx := true, st.Italic, st.Underline, st.Boxing
					_ = tr
					li.InlineStyle = &astisub.StyleAttributes{STLItalics: &i, STLUnderline: &u}
					if bx || r.Bool() {
						li.InlineStyle.STLBoxing = &bx
					}
				}
				runs = append(runs, stlRun{t, st})
				line.Items = append(line.Items, li)
			}
			if len(line.Items) > 0 {
				c.Rows = append(c.Rows, runs)
				c.NRows++
				it.Lines = append(it.Lines, line)
			}
		}
		if len(it.Lines) == 0 {
			it.Lines = []astisub.Line{{Items: []astisub.LineItem{{Text: "x"}}}}
			c.Rows, c.NRows = [][]stlRun{{{Text: "x"}}}, 1
		}
		if r.P(1, 12) {
			// a text that fills the 112-byte text field exactly (or leaves one byte)
			t := strings.Repeat("abcdefghij", 12)[:fw.Pick(r, []int{112, 111, 110})]
			it.Lines = []astisub.Line{{Items: []astisub.LineItem{{Text: t}}}}
			c.Rows, c.NRows = [][]stlRun{{{Text: t}}}, 1
		}
		m.Cues = append(m.Cues, c)
		s.Items = append(s.Items, it)
	}
	return m, s, []string{"stl-metadata-open", "no-metadata", "inherited-metadata", "stl-metadata-teletext"}[metaKind]
}

func boolInt(b bool) int {
	if b {
		return 1
	}
	return 0
}

// stlDecodeFile is the harness's own GSI/TTI decoder
func stlDecodeFile(b []byte) (meta string, cues string, tcs [][8]byte, err error) {
	if len(b) < 1024 || (len(b)-1024)%128 != 0 {
		return "", "", nil, fmt.Errorf("file size %d is not 1024 + 128n", len(b))
	}
	f := func(a, z int) string { return strings.TrimSpace(string(b[a:z])) }
	var g stlGSI
	switch f(3, 11) {
	case "STL25.01":
		g.FPS = 25
	case "STL30.01":
		g.FPS = 30
	default:
		return "", "", nil, fmt.Errorf("disk format code %q", f(3, 11))
	}
	if string(b[12:14]) != "00" {
		return "", "", nil, fmt.Errorf("character code table %q", b[12:14])
	}
	g.DSC, g.LC, g.OPT, g.OET, g.TPT, g.TET, g.TN, g.TCD, g.SLR, g.CD, g.RD = f(11, 12), f(14, 16), f(16, 48), f(48, 80), f(80, 112), f(112, 144), f(144, 176), f(176, 208), f(208, 224), f(224, 230), f(230, 236)
	g.Lang = stlLangCodes[g.LC]
	fmt.Sscanf(f(236, 238), "%d", &g.RN)
	var tnb int
	fmt.Sscanf(f(238, 243), "%d", &tnb)
	fmt.Sscanf(f(251, 253), "%d", &g.MNC)
	fmt.Sscanf(f(253, 255), "%d", &g.MNR)
	if n, _ := fmt.Sscanf(f(256, 264), "%2d%2d%2d%2d", &g.TCP[0], &g.TCP[1], &g.TCP[2], &g.TCP[3]); n != 4 {
		return "", "", nil, fmt.Errorf("bad TCP %q", f(256, 264))
	}
	g.CO, g.PUB, g.EN, g.ECD = f(274, 277), f(277, 309), f(309, 341), f(341, 373)
	nblk := (len(b) - 1024) / 128
	if tnb != nblk {
		return "", "", nil, fmt.Errorf("GSI announces %d TTI blocks, the file has %d", tnb, nblk)
	}
	tcp := stlTCPns(g)
	var cb strings.Builder
	k := 0
	prevSN := -1
	for off := 1024; off < len(b); off += 128 {
		blk := b[off : off+128]
		if blk[3] == 0xfe {
			continue
		}
		if sn := int(blk[1]) | int(blk[2])<<8; k > 0 && sn != prevSN+1 {
			return "", "", nil, fmt.Errorf("TTI block %d has subtitle number %d after %d: subtitle numbers must be consecutive", k, sn, prevSN)
		} else {
			prevSN = sn
		}
		var tci, tco [4]byte
		copy(tci[:], blk[5:9])
		copy(tco[:], blk[9:13])
		if k == 0 {
			// the GSI "timecode: first in-cue" must be the in-cue of the first subtitle
			want := fmt.Sprintf("%02d%02d%02d%02d", tci[0], tci[1], tci[2], tci[3])
			if got := f(264, 272); got != want {
				return "", "", nil, fmt.Errorf("GSI timecode first in-cue is %q, the first TTI block starts at %s", got, want)
			}
		}
		if int(tci[3]) >= g.FPS || int(tco[3]) >= g.FPS || tci[1] >= 60 || tci[2] >= 60 || tco[1] >= 60 || tco[2] >= 60 {
			return "", "", nil, fmt.Errorf("TTI block %d: timecode out of range %v %v", k, tci, tco)
		}
		var t8 [8]byte
		copy(t8[:], blk[5:13])
		tcs = append(tcs, t8)
		tf := blk[16:128]
		rows := bytes.Split(tf, []byte{0x8a})
		fmt.Fprintf(&cb, "cue %d: %d-%d vp=%d jc=%d maxrows=%d rows=%d\n", k, stlTimeNs(tci, g.FPS)-tcp, stlTimeNs(tco, g.FPS)-tcp, blk[13], blk[14], g.MNR, len(rows))
		var drows [][]stlRun
		for _, row := range rows {
			var runs []stlRun
			var st stlStyle
			cur := stlRun{}
			started := g.DSC == "0"
			var chunk []byte
			flushChunk := func() {
				if started {
					cur.Text += stlDecodeChars(chunk)
				}
				chunk = nil
			}
			for _, c := range row {
				switch {
				case c == 0x8f:
				case c >= 0x80 && c <= 0x85:
					flushChunk()
					runs = append(runs, cur)
					switch c {
					case 0x80:
						st.Italic = true
					case 0x81:
						st.Italic = false
					case 0x82:
						st.Underline = true
					case 0x83:
						st.Underline = false
					case 0x84:
						st.Boxing = true
					case 0x85:
						st.Boxing = false
					}
					cur = stlRun{Style: st}
				case c == 0x0b && g.DSC != "0":
					flushChunk()
					started = true
				case c == 0x0a && g.DSC != "0":
					flushChunk()
					started = false
				case c < 0x20:
					if g.DSC == "0" {
						return "", "", nil, fmt.Errorf("control code %#x in open subtitling text", c)
					}
				default:
					chunk = append(chunk, c)
				}
			}
			flushChunk()
			runs = append(runs, cur)
			drows = append(drows, runs)
		}
		cb.WriteString(stlDenoteRows(drows))
		k++
	}
	return stlMetaDenote(g, false, true), cb.String(), tcs, nil
}

var (
	stlReMaxRows = regexp.MustCompile(`maxrows=\d+`)
	stlRePos     = regexp.MustCompile(`vp=\d+ jc=-?\d+`)
)

// stlNormalise removes from a cue denotation what the model did not supply: the writer's defaults (display rows when
// there is no STL metadata, vertical position and justification of cues without them) are its own business
func stlNormalise(s string, m stlModel, withSTLMeta bool) string {
	lines := strings.Split(s, "\n")
	k := 0
	for i, l := range lines {
		if !strings.HasPrefix(l, "cue ") {
			continue
		}
		if !withSTLMeta {
			l = stlReMaxRows.ReplaceAllString(l, "maxrows=*")
		}
		if k < len(m.Cues) && m.Cues[k].VP == 255 {
			l = stlRePos.ReplaceAllString(l, "vp=* jc=*")
		}
		lines[i] = l
		k++
	}
	return strings.Join(lines, "\n")
}

const c05FindingTeletext = "C05/teletext-dsc-text-not-recovered"
const c05FindingDollar = "C05/dollar-written-as-currency-sign"

func c05Writer(c *fw.Ctx) fw.Outcome {
	model, sub, kind := stlGenWriterModel(c.R)
	var b1, b2 bytes.Buffer
	var err error
	if p := guard(func() { err = sub.WriteToSTL(&b1) }); p != "" || err != nil {
		return fw.Bad(fw.HashString(kind), nil, "writer failed (%s): %v %s", kind, err, p)
	}
	doc := b1.Bytes()
	key := fw.HashBytes(doc)
	if c.Idx%4 == 3 {
		if msg := altWrite(c, "stl", sub, doc); msg != "" {
			return fw.Bad(key, fmt.Sprintf("%x", doc), "%s", msg)
		}
	}
	if len(doc) != 1024+128*len(model.Cues) {
		return fw.Bad(key, fmt.Sprintf("%x", doc), "the file has %d bytes for %d cues, expected one 1024-byte GSI block and one 128-byte TTI block per cue", len(doc), len(model.Cues))
	}
	exp := func(m stlModel, dollar, noText bool) string {
		var b strings.Builder
		for k, cu := range m.Cues {
			fmt.Fprintf(&b, "cue %d: %d-%d vp=%d jc=%d maxrows=%d rows=%d\n", k, cu.start, cu.end, cu.VP, cu.JC, m.G.MNR, cu.NRows)
			if noText {
				continue
			}
			rows := cu.Rows
			if dollar {
				rows = nil
				for _, row := range cu.Rows {
					var nr []stlRun
					for _, run := range row {
						nr = append(nr, stlRun{strings.ReplaceAll(run.Text, "$", "¤"), run.Style})
					}
					rows = append(rows, nr)
				}
			}
			b.WriteString(stlDenoteRows(rows))
		}
		return b.String()
	}
	hasDollar := strings.Contains(exp(model, false, false), "$")
	teletext := len(doc) > 11 && doc[11] != '0' // the display standard the writer actually used
	var hits []string
	withSTLMeta := kind == "stl-metadata-open" || kind == "stl-metadata-teletext"
	match := func(have string, who string) (string, bool) {
		have = stlNormalise(have, model, withSTLMeta)
		strict := stlNormalise(exp(model, false, false), model, withSTLMeta)
		if stlSameWithin1ns(strict, have) {
			return "", true
		}
		// recorded findings, each a precise alternative prediction
		dollar := hasDollar && c.IsKnown(c05FindingDollar)
		tele := teletext && c.IsKnown(c05FindingTeletext)
		if (dollar || tele) && stlSameWithin1ns(stlNormalise(exp(model, dollar, tele), model, withSTLMeta), have) {
			if tele {
				hits = append(hits, c05FindingTeletext)
			} else {
				hits = append(hits, c05FindingDollar)
			}
			return "", true
		}
		return fmt.Sprintf("STL writer (%s, fps=%d dsc=%s) -> %s: %s", kind, model.G.FPS, model.G.DSC, who, firstDiff(strict, have)), false
	}
	// (a) independent decoder
	dmeta, dcues, tcs1, derr := stlDecodeFile(doc)
	if derr != nil {
		return fw.Bad(key, fmt.Sprintf("%x", doc), "the independent GSI/TTI decoder rejects the writer's output (%s): %v", kind, derr)
	}
	if msg, ok := match(dcues, "independent decoder"); !ok {
		return fw.Bad(key, fmt.Sprintf("%x", doc), "%s", msg)
	}
	if e := stlMetaDenote(model.G, false, true); withSTLMeta && dmeta != e {
		return fw.Bad(key, fmt.Sprintf("%x", doc), "STL writer (%s) -> independent decoder, metadata: expected %s got %s", kind, e, dmeta)
	}
	// (b) library reader
	var got *astisub.Subtitles
	if p := guard(func() { got, err = astisub.ReadFromSTL(bytes.NewReader(doc), astisub.STLOptions{}) }); p != "" || err != nil {
		return fw.Bad(key, fmt.Sprintf("%x", doc), "library reader failed on the writer's output (%s): %v %s", kind, err, p)
	}
	if msg, ok := match(stlProjectCues(got), "library reader"); !ok {
		return fw.Bad(key, fmt.Sprintf("%x", doc), "%s", msg)
	}
	if e, h := stlMetaDenote(model.G, false, true), stlProjectMeta(got.Metadata); withSTLMeta && e != h {
		return fw.Bad(key, fmt.Sprintf("%x", doc), "STL writer (%s) -> library reader, metadata: expected %s got %s", kind, e, h)
	}
	if !withSTLMeta {
		// without STL metadata the writer chooses its own defaults: the two decoders must agree on what it wrote, and a
		// title inherited from another format must survive
		if h := stlProjectMeta(got.Metadata); h != dmeta {
			return fw.Bad(key, fmt.Sprintf("%x", doc), "STL writer (%s): the library reader and the independent decoder disagree on the metadata of the written file: %s vs %s", kind, h, dmeta)
		}
		// (a title of at most 32 ASCII bytes survives as it is, a longer one cut to the field; what the GSI code page
		// makes of other scripts is not demanded - only that the blocks keep their sizes, checked above)
		want, ascii := model.G.OPT, true
		for i := 0; i < len(want); i++ {
			ascii = ascii && want[i] < 0x80
		}
		if len(want) > 32 {
			want = strings.TrimRight(want[:32], " ")
		}
		if ascii && (got.Metadata == nil || got.Metadata.Title != want) {
			return fw.Bad(key, fmt.Sprintf("%x", doc), "STL writer (%s): title %q not found in the written file", kind, want)
		}
	}
	// (c) reading then writing again changes no timecode
	if p := guard(func() { err = got.WriteToSTL(&b2) }); p != "" || err != nil {
		return fw.Bad(key, fmt.Sprintf("%x", doc), "second write failed: %v %s", err, p)
	}
	_, _, tcs2, derr := stlDecodeFile(b2.Bytes())
	if derr != nil {
		return fw.Bad(key, fmt.Sprintf("%x", doc), "second write is not decodable: %v", derr)
	}
	if fmt.Sprint(tcs1) != fmt.Sprint(tcs2) || !bytes.Equal(doc[256:264], b2.Bytes()[256:264]) {
		return fw.Bad(key, fmt.Sprintf("%x", doc), "reading then writing again changed a timecode (%s, fps=%d, tcp=%v): %v -> %v", kind, model.G.FPS, model.G.TCP, tcs1, tcs2)
	}
	c.Feature(fmt.Sprintf("write %s fps=%d dsc=%s tcp=%v", kind, model.G.FPS, model.G.DSC, model.G.TCP != [4]int{}))
	c.Count("writer_files", 1)
	if len(hits) > 0 {
		return fw.Outcome{Status: fw.Known, Key: key, Finding: hits[0], Detail: fmt.Sprintf("%s fps=%d dsc=%s: %s", kind, model.G.FPS, model.G.DSC, trunc(exp(model, false, false), 200))}
	}
	return fw.OK(key, map[string]interface{}{"direction": "write", "kind": kind, "fps": model.G.FPS, "dsc": model.G.DSC, "cues": trunc(exp(model, false, false), 700)})
}

func init() {
	n := func(tier string) int64 { return tierN(tier, 4000, 400000) }
	enum := stlEnumeration()
	const enumDocs = 6 // the enumeration under DSC 0/1/2 x fps 25/30 is drawn by the seed; 6 documents per run
	fw.Register(&fw.Property{
		ID:    "C05",
		Level: "exploration",
		Rule: "reader cases: files produced by the harness's own GSI/TTI encoder from a random model (all exposed GSI fields, 25/30 fps, display standard 0/1/2, programme start 0 / 10:00:00:00 / random, language codes mapped and unmapped, 0..5 cues with every timecode class (frames 0,1,fps-1; x:59:59; x:00:00), VP, JC, 1..3 rows of text chunks over the whole Latin table with floating diacritics on composable and non-composable letters, italic/underline/boxing codes, and for teletext standards start/end box, colour and size codes, text outside the box; user-data blocks (EBN 0xFE) interleaved) read with ignore-programme-start false and true; expected runs come from the harness's own interpretation of the token stream, compared after trimming and merging neighbouring runs of identical style (a spacing attribute occupies a cell). The first 6 cases enumerate all 13 diacritics x 52 letters and every code of the table. " +
			"writer cases: cue lists with STL metadata (open and teletext), without metadata, or with metadata inherited from another format; file size, the harness's own decoder and the library reader must give the model back; reading then writing again must not change any TCI/TCO/TCP byte. distinct_nontrivial = distinct files compared.",
		Assumptions: []string{"text fits 112 encoded bytes and lies in the Latin repertoire; GSI strings are ASCII and fit their fields; hours < 24", "language is compared as one of the five mapped languages (an unmapped code denotes none)", "rows never end on a floating diacritic"},
		Cases:       func(tier string) int64 { return enumDocs + 2*n(tier) },
		Anchors:     []string{"ReadFromSTL", "parseGSIBlock", "parseTTIBlock", "parseDurationSTLBytes", "stlCharacterHandler.decode", "parseOpenSubtitleRow", "parseTeletextRow", "WriteToSTL", "newGSIBlock", "newTTIBlock", "encodeTextSTL", "LineItem.STLString"},
		Run: func(c *fw.Ctx) fw.Outcome {
			switch {
			case c.Idx < enumDocs:
				c.Count("diacritic_letter_pairs_enumerated", int64(len(enum)))
				return c05Reader(c, enum)
			case c.Idx < enumDocs+n(c.Tier):
				return c05Reader(c, nil)
			}
			return c05Writer(c)
		},
	})
}
