package props

import (
	"bytes"
	"fmt"
	"io"
	"log"
	"os"
	"path/filepath"
	"runtime"
	"runtime/debug"
	"sort"
	"strings"
	"sync"
	"sync/atomic"
	"time"

	astisub "github.com/asticode/go-astisub"
	"verif/harness/fw"
)

// C20 Independent calls are safe to run concurrently: race detector + result equality with the sequential run +
// state digest canary + evidence that operations really overlapped.

var c20Kinds = []string{
	"read-srt", "read-webvtt", "read-ttml", "read-ssa", "read-stl", "read-teletext",
	"write-srt", "write-ssa", "write-stl", "write-ttml", "write-webvtt",
	"transform",
	"file",                // Subtitles.Write to a file of its own (several goroutines write into the same directory) and OpenFile
	"read-teletext-early", // a long stream without teletext, from a reader that cannot seek: the call returns early
}

// c20Phase names the sub-directory that does not exist yet when a phase (alone / together) begins
var c20Phase string

// c20LateReads counts reads issued on an operation's reader after the call it was given to had returned: a call owns
// its reader only while it runs
var c20LateReads int64

type c20OwnedReader struct {
	r        io.Reader
	returned *int32
}

func (o c20OwnedReader) Read(p []byte) (int, error) {
	if atomic.LoadInt32(o.returned) != 0 {
		atomic.AddInt64(&c20LateReads, 1)
	}
	return o.r.Read(p)
}

// c20NoTeletext: PAT and a PMT without any teletext stream, then about 400 kB of other packets
var c20NoTeletext = func() []byte {
	w := newTSWriter()
	w.payloadUnit(0, patSection([][2]uint16{{1, 0x30}}), true)
	w.payloadUnit(0x30, pmtSection(1, 0x1ff0, []pmtStream{{0x1b, 0x1ff0, nil}}), true)
	w.payloadUnit(0, patSection([][2]uint16{{1, 0x30}}), true)
	w.payloadUnit(0x30, pmtSection(1, 0x1ff0, []pmtStream{{0x1b, 0x1ff0, nil}}), true)
	for i := 0; i < 2200; i++ {
		w.null()
	}
	return w.buf.Bytes()
}()

// c20Dir is the directory of the current round's "file" operations
var c20Dir string

// c20Op executes one operation that owns all its inputs (rebuilt from the seed) and returns a digest of its result
func c20Op(kind string, seed uint64) string {
	r := fw.NewRand(seed)
	var out string
	p := guard(func() {
		switch {
		case len(kind) > 5 && kind[:5] == "read-" && kind != "read-teletext-early":
			d := genDoc(r, kind[5:], r.P(1, 4))
			if d.Format == "stl" && r.P(1, 4) && len(d.Data) >= 1024 {
				copy(d.Data[3:11], fw.Pick(r, []string{"STL24.01", "STL50.01", "STL60.01"})) // an unknown disk format code
			}
			if d.Format == "ttml" && r.P(1, 3) {
				for _, id := range []string{` xml:id="r0"`, ` id="r0"`, ` xml:id='r0'`, ` id='r0'`} {
					d.Data = bytes.Replace(d.Data, []byte(id), nil, 1) // a region without identifier (cues naming it are then rejected: an error is a result too)
				}
			}
			s, err := d.Read(bytes.NewReader(d.Data))
			if err != nil {
				out = "err:" + err.Error()
				return
			}
			out = sha([]byte(deepDump(s)))
		case kind == "read-teletext-early":
			var returned int32
			_, err := astisub.ReadFromTeletext(c20OwnedReader{bytes.NewReader(c20NoTeletext), &returned}, astisub.TeletextOptions{})
			atomic.StoreInt32(&returned, 1)
			out = fmt.Sprint(err)
		case kind == "file":
			// every operation has a file name of its own; directory and extension are shared with the others
			s := richSubtitles(r)
			ext := fw.Pick(r, []string{"srt", "vtt", "ttml", "ssa", "stl"})
			path := filepath.Join(c20Dir, fmt.Sprintf("list-%d.%s", seed, ext))
			if seed%2 == 1 {
				// a directory that does not exist (yet): whatever Write makes of that, it makes it alone or together
				path = filepath.Join(c20Dir, "sub-"+c20Phase, fmt.Sprintf("list-%d.%s", seed, ext))
			}
			if seed%4 == 0 {
				// (a file of the shared directory itself, never of the sub-directory that may not exist)
				os.WriteFile(path, []byte("an earlier version of the file, to be replaced"), 0o644)
			}
			if err := s.Write(path); err != nil {
				out = "write err:" + strings.ReplaceAll(strings.ReplaceAll(err.Error(), c20Dir, ""), "sub-"+c20Phase, "sub")
				return
			}
			b, err := os.ReadFile(path)
			back, rerr := astisub.OpenFile(path)
			os.Remove(path)
			n := -1
			if back != nil {
				n = len(back.Items)
			}
			out = fmt.Sprintf("%s/%v/%v/%d", sha(b), err != nil, rerr != nil, n)
		case len(kind) > 6 && kind[:6] == "write-":
			s := richSubtitles(r)
			if r.P(1, 3) && len(s.Items) > 0 {
				// the site's house layout: definitions that every list refers to. The lists are not shared; the writers
				// only have to read what the lists point to
				s.Regions[c20HouseRegion.ID], s.Styles[c20HouseStyle.ID] = c20HouseRegion, c20HouseStyle
				s.Items[0].Region = c20HouseRegion
				s.Items[len(s.Items)-1].Style = c20HouseStyle
				if r.Bool() {
					s.Metadata = c20HouseMeta // the programme's metadata, the same object for every segment cut from it
				}
				if r.Bool() {
					// the accumulate pattern: the station's opening cues first, then the list's own
					out := astisub.NewSubtitles()
					out.Merge(c20HouseCues)
					out.Merge(s)
					out.Metadata = s.Metadata
					s = out
				}
			}
			if ind := r.Intn(6); kind == "write-ttml" && ind > 0 {
				// the writer's option: it concerns this call only
				var b bytes.Buffer
				var err error
				if ind == 5 && r.Bool() {
					// round 13: a shared option value behind another option, or alone
					if r.Bool() {
						err = s.WriteToTTML(&b, c20SharedOptions[0], c20SharedTab)
					} else {
						err = s.WriteToTTML(&b, c20SharedTab)
					}
				} else if ind >= 3 {
					err = s.WriteToTTML(&b, c20SharedOptions...) // (option values are not documents: handing the same ones to every call is fair)
				} else {
					err = s.WriteToTTML(&b, astisub.WriteToTTMLWithIndentOption([]string{"", "\t"}[ind-1]))
				}
				out = fmt.Sprintf("%s/%v/", sha(b.Bytes()), err != nil)
				return
			}
			for _, w := range allWriters {
				if w.name == kind[6:] {
					b, err, p := writeBytes(w, s)
					out = fmt.Sprintf("%s/%v/%s", sha(b), err != nil, p)
				}
			}
		default:
			s := richSubtitles(r)
			other := richSubtitles(r)
			for k := 0; k < 4; k++ {
				switch r.Intn(10) {
				case 9:
					// pad the list, then do to the padded list what its owner may do: strip the styling, edit the last cue
					s.Order()
					s.ForceDuration(s.Duration()+time.Duration(r.Range(1, 5000))*time.Millisecond, true)
					s.RemoveStyling()
					if n := len(s.Items); n > 0 && len(s.Items[n-1].Lines) > 0 && len(s.Items[n-1].Lines[0].Items) > 0 {
						s.Items[n-1].Lines[0].Items[0].Text = fmt.Sprintf("edited %d", seed%1000)
						s.Items[n-1].Lines[0].VoiceName = "owner"
					}
				case 0:
					s.Add(time.Duration(r.Intn(4000)-2000) * time.Millisecond)
				case 1:
					s.Order()
					s.Fragment(time.Duration(r.Range(1, 3000)) * time.Millisecond)
				case 2:
					s.Unfragment()
				case 3:
					s.Order()
				case 4:
					s.Merge(other)
				case 5:
					s.Optimize()
				case 6:
					s.Order()
					s.ForceDuration(time.Duration(r.Range(1, 20000))*time.Millisecond, r.Bool())
				case 7:
					s.ApplyLinearCorrection(time.Second, 2*time.Second, 5*time.Second, 7*time.Second)
				case 8:
					if r.P(1, 3) {
						s.RemoveStyling()
					}
				}
			}
			out = sha([]byte(deepDump(s)))
		}
	})
	if p != "" {
		return "panic:" + p
	}
	return out
}

type c20Span struct {
	kind       string
	begin, end int64
}

var c20Digest string
var c20Goroutines int
var c20LogPrefix string
var c20LogFlags int
var c20Process string

// c20ProcessState: settings of the whole process that a library call has no business changing
func c20ProcessState() string {
	gc := debug.SetGCPercent(100)
	debug.SetGCPercent(gc)
	wd, _ := os.Getwd()
	return fmt.Sprintf("GC percent %d, working directory %s, %d environment variables", gc, wd, len(os.Environ()))
}

// the house layout that the lists of some write operations refer to (read-only for everybody)
var c20HouseRegion, c20HouseStyle = &astisub.Region{ID: "house"}, &astisub.Style{ID: "house-style"}
var c20HouseMeta *astisub.Metadata
var c20HouseCues *astisub.Subtitles
var c20HousePristine string

// c20HouseDump: the house objects as they are now (the cue slice with its spare room: cells behind the length count)
func c20HouseDump() string {
	return deepDump([]interface{}{c20HouseRegion, c20HouseStyle, c20HouseMeta, c20HouseCues, c20HouseCues.Items[:cap(c20HouseCues.Items)]})
}

// c20NewHouse: every phase of a round begins with a house layout nobody has touched yet (called before the
// goroutines of the phase exist)
func c20NewHouse() {
	c20HouseRegion, c20HouseStyle = &astisub.Region{ID: "house"}, &astisub.Style{ID: "house-style"}
	cd := fixedNow
	c20HouseMeta = &astisub.Metadata{Title: "Programme", Framerate: 25, STLDisplayStandardCode: "0", STLCreationDate: &cd, STLRevisionDate: &cd, Comments: []string{"first line\nsecond line", "kept as it is"}, SSAScriptType: "v4.00+"}
	c20HouseCues = astisub.NewSubtitles()
	c20HouseCues.Items = make([]*astisub.Item, 0, 8) // (as a reader leaves it: room to spare behind the cues)
	c20HouseCues.Items = append(c20HouseCues.Items, textItem(0, time.Second, "station ident"), textItem(time.Second, 2*time.Second, "previously"))
	c20HousePristine = c20HouseDump()
}

// c20SharedOptions: one slice of writer options (with room to spare) that every goroutine passes as it is
var c20SharedOptions = append(make([]astisub.WriteToTTMLOption, 0, 4), astisub.WriteToTTMLWithIndentOption("  "))

var c20SharedTab = astisub.WriteToTTMLWithIndentOption("\t")

func c20Run(c *fw.Ctx) fw.Outcome {
	r := c.R
	g := fw.Pick(r, []int{2, 3, 4, 8, 16, 32})
	procs := fw.Pick(r, []int{2, 4, 16})
	prev := runtime.GOMAXPROCS(procs)
	defer runtime.GOMAXPROCS(prev)
	type job struct {
		kind string
		seed uint64
		seq  string
	}
	c20Dir = c.TmpDir()
	jobs := make([]job, g)
	for i := range jobs {
		jobs[i] = job{kind: fw.Pick(r, c20Kinds), seed: r.U64()}
		if r.P(1, 3) && i > 0 {
			jobs[i].kind = jobs[i-1].kind // several operations of the same kind at once (same shared tables)
		}
		if c.Idx%6 == 5 && i%2 == 0 {
			jobs[i].kind = "file" // every sixth round: half of the operations write files into the same directory
		}
	}
	// the sequential run, alone, beforehand
	c20Phase = fmt.Sprintf("alone-%d", c.Idx)
	c20NewHouse()
	for i := range jobs {
		jobs[i].seq = c20Op(jobs[i].kind, jobs[i].seed)
	}
	key := fw.Mix(uint64(g), uint64(procs), jobs[0].seed)
	if now := c20HouseDump(); now != c20HousePristine {
		return fw.Bad(key, nil, "an operation run alone modified the house objects that its list only refers to: %s", firstDiff(c20HousePristine, now))
	}
	// the concurrent run: released together by a barrier, in randomised start order
	c20NewHouse() // (as untouched as it was before the sequential run)
	order := r.Perm(g)
	results := make([]string, g)
	spans := make([]c20Span, g)
	var tick int64
	var ready, done sync.WaitGroup
	start := make(chan struct{})
	ready.Add(g)
	done.Add(g)
	for _, i := range order {
		i := i
		go func() {
			defer done.Done()
			ready.Done()
			<-start
			spans[i].kind = jobs[i].kind
			spans[i].begin = atomic.AddInt64(&tick, 1)
			results[i] = c20Op(jobs[i].kind, jobs[i].seed)
			spans[i].end = atomic.AddInt64(&tick, 1)
		}()
	}
	c20Phase = fmt.Sprintf("together-%d", c.Idx)
	ready.Wait()
	close(start)
	done.Wait()
	if now := c20HouseDump(); now != c20HousePristine {
		return fw.Bad(key, nil, "the concurrent operations modified the house objects that their lists only refer to: %s", firstDiff(c20HousePristine, now))
	}
	// a moment for anything a call may have left running to show itself (observing nothing proves nothing; a read
	// observed after the call returned is a fact)
	runtime.Gosched()
	time.Sleep(2 * time.Millisecond)
	// process-wide state outside the package that a call may have touched: the standard logger the library logs through
	if p, f := log.Prefix(), log.Flags(); p != c20LogPrefix || f != c20LogFlags {
		return fw.Bad(key, nil, "the process-wide logger is left changed by the concurrent calls: prefix %q flags %d, it was prefix %q flags %d before the rounds", p, f, c20LogPrefix, c20LogFlags)
	}
	// ... the garbage collector's setting, the working directory, the environment
	if st := c20ProcessState(); st != c20Process {
		return fw.Bad(key, nil, "process-wide state is left changed by the concurrent calls: %s, it was %s before the rounds", st, c20Process)
	}
	if n := atomic.LoadInt64(&c20LateReads); n > 0 {
		return fw.Bad(key, nil, "%d reads were issued on a reader after the call it had been given to had returned: the call left something running that still uses its input", n)
	}
	for i := range jobs {
		if results[i] != jobs[i].seq {
			return fw.Bad(key, nil, "operation %s (seed %d) returned %s when run concurrently with %d others (GOMAXPROCS %d) and %s when run alone", jobs[i].kind, jobs[i].seed, trunc(results[i], 300), g-1, procs, trunc(jobs[i].seq, 300))
		}
	}
	// evidence: which kinds really overlapped
	overl := 0
	for i := range spans {
		for j := i + 1; j < len(spans); j++ {
			if spans[i].begin < spans[j].end && spans[j].begin < spans[i].end {
				a, b := spans[i].kind, spans[j].kind
				if a > b {
					a, b = b, a
				}
				c.Feature("overlap " + a + " | " + b)
				overl++
			}
		}
	}
	c.Count("operations_run_concurrently", int64(g))
	c.Count("overlapping_operation_pairs", int64(overl))
	c.Count(fmt.Sprintf("rounds_gomaxprocs_%d", procs), 1)
	if overl == 0 {
		return fw.Outcome{Status: fw.Trivial}
	}
	var ks []string
	for _, j := range jobs {
		ks = append(ks, j.kind)
	}
	sort.Strings(ks)
	return fw.OK(key, map[string]interface{}{"goroutines": g, "gomaxprocs": procs, "operations": ks, "overlapping_pairs": overl})
}

func init() {
	c20NewHouse()
	fw.Register(&fw.Property{
		ID:          "C20",
		Level:       "exploration",
		Rule:        "case = one round: 2..32 goroutines, each owning its inputs (rebuilt from a seed), run one of 12 operation kinds (6 readers incl. teletext streams with different national subsets and X/28-M/29 packets, 5 writers - TTML also with its indentation option -, transformation sequences over Add/Fragment/Unfragment/Order/Merge/Optimize/ForceDuration/linear correction/RemoveStyling incl. padding a list and then stripping and editing the padded list), a third of the write operations on lists that refer to one house region and style which all of them only read (fresh and untouched at the start of each phase, compared with a deep dump at its end; some of these lists also share one metadata object and are built by merging house cues in front), released together by a barrier in randomised order under GOMAXPROCS 2, 4 or 16. The monitor binary is built with -race: any race report fails the run (witness = the report). Every concurrent result digest must equal the digest of the same operation run alone beforehand; the package state digest (verif hook) and the data-segment digests (every package-level variable of the library as linked into the monitor: byte for byte, and followed through slices, strings, pointers, structs and arrays with the binary's debug information) must be unchanged at the end. A round counts only if at least two operations really overlapped (begin/end ticks); the evidence lists the kind x kind pairs observed overlapping (distinct_features). distinct_nontrivial = distinct rounds with overlap.",
		Assumptions: []string{"the race detector reports only accesses that happened in these rounds", "the injectable clock is set once before the rounds (it is the documented exception)"},
		Cases:       func(tier string) int64 { return tierN(tier, 240, 20000) },
		Workers:     4,
		Setup: func(c *fw.Ctx) error {
			c20Digest = stateDigest()
			datasegMark()
			c20Goroutines = runtime.NumGoroutine()
			c20LogPrefix, c20LogFlags = log.Prefix(), log.Flags()
			c20Process = c20ProcessState()
			return nil
		},
		Final: func(c *fw.Ctx) []fw.Outcome {
			var outs []fw.Outcome
			if !raceEnabled {
				outs = append(outs, fw.Outcome{Status: fw.Inconclusive, Detail: "the monitor was not built with the race detector"})
			}
			if d := stateDigest(); d != c20Digest {
				outs = append(outs, fw.Bad(1, nil, "the package state digest changed during the concurrent rounds (%s -> %s)", c20Digest, d))
			} else {
				outs = append(outs, fw.OK(fw.HashString(d), "state digest unchanged: "+d))
			}
			outs = append(outs, datasegVerdict("during the concurrent rounds"))
			// goroutines: the library starts none of its own, so the count is back where it was once the rounds are over
			time.Sleep(50 * time.Millisecond)
			if g := runtime.NumGoroutine(); g > c20Goroutines {
				buf := make([]byte, 1<<16)
				buf = buf[:runtime.Stack(buf, true)]
				where := ""
				for _, blk := range strings.Split(string(buf), "\n\n") {
					if strings.Contains(blk, "go-astisub") {
						where = trunc(strings.ReplaceAll(blk, "\n", " | "), 600)
						break
					}
				}
				outs = append(outs, fw.Bad(4, nil, "%d goroutines at the start of the worker, %d after its rounds: calls leave goroutines behind, e.g. %s", c20Goroutines, g, where))
			} else {
				outs = append(outs, fw.OK(0x60c0, fmt.Sprintf("goroutines: %d before, %d after", c20Goroutines, g)))
			}
			return outs
		},
		MinDistinct: func(tier string) int64 { return tierN(tier, 100, 2000) },
		Anchors:     []string{"teletextCharacterDecoder.updateCharset", "newSTLCharacterHandler", "stlCharacterCodeTables", "ttmlLanguageMapping", "all readers, writers and transformations"},
		Run:         c20Run,
	})
}

var _ = astisub.NewSubtitles
