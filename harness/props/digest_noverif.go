//go:build !verif

package props

func stateDigest() string { return "hooks-off" }
