package props

import (
	"bytes"
	"fmt"
	"regexp"
	"strconv"
	"strings"
	"time"
	"unicode"

	astisub "github.com/asticode/go-astisub"
	"verif/harness/fw"
)

// C01 SubRip fidelity: ground-truth model -> renderings -> library reader; model -> library writer -> library
// reader and independent decoder.

type srtRun struct {
	Text    string
	B, I, U bool
	Color   string
}

type srtCue struct {
	Start, End int64 // ms
	Index      int   // 0 = not compared
	Lines      [][]srtRun
}

// denotation of a line: one entry per rune with its attributes
func srtDenoteLine(runs []srtRun) string {
	var b strings.Builder
	for _, r := range runs {
		attr := ""
		if r.B {
			attr += "b"
		}
		if r.I {
			attr += "i"
		}
		if r.U {
			attr += "u"
		}
		if r.Color != "" {
			attr += "c=" + r.Color
		}
		for _, c := range r.Text {
			fmt.Fprintf(&b, "%q[%s] ", c, attr)
		}
	}
	return b.String()
}

func srtDenote(cs []srtCue, withIndex bool) string {
	var b strings.Builder
	for k, c := range cs {
		fmt.Fprintf(&b, "cue %d: %d-%d", k, c.Start, c.End)
		if withIndex && c.Index != 0 {
			fmt.Fprintf(&b, " #%d", c.Index)
		}
		b.WriteString("\n")
		for _, l := range c.Lines {
			b.WriteString("  | " + srtDenoteLine(l) + "\n")
		}
	}
	return b.String()
}

func firstDiff(a, b string) string {
	la, lb := strings.Split(a, "\n"), strings.Split(b, "\n")
	for i := 0; i < len(la) || i < len(lb); i++ {
		var x, y string
		if i < len(la) {
			x = la[i]
		}
		if i < len(lb) {
			y = lb[i]
		}
		if x != y {
			return fmt.Sprintf("first difference at denotation line %d: expected %q, got %q", i, trunc(x, 300), trunc(y, 300))
		}
	}
	return "equal"
}

func trunc(s string, n int) string {
	if len(s) > n {
		return s[:n] + "…"
	}
	return s
}

var srtColors = []string{"#ff0000", "#00FF00", "red", "yellow", "#abcdef", "rgba(1,2,3)"}

func srtGenModel(r *fw.Rand) []srtCue { return srtGenModelN(r, r.Intn(7)) }

func srtGenModelN(r *fw.Rand, n int) []srtCue {
	cs := make([]srtCue, n)
	for k := range cs {
		s := genTimeMs(r, 100)
		e := s + r.I64n(10000)
		if r.P(1, 5) {
			e = genTimeMs(r, 100)
		}
		if e >= 100*3600000 {
			e = 100*3600000 - 1
		}
		if k > 0 && r.P(1, 8) {
			s, e = cs[k-1].Start, cs[k-1].End // two cues shown over the same interval
		}
		c := srtCue{Start: s, End: e, Index: k + 1}
		if r.P(1, 6) {
			c.Index = r.Range(1, 99999)
			if r.P(1, 3) {
				c.Index = fw.Pick(r, []int{2147483647, 2147483648, 4294967296, 1700000000000}) + k
			}
		}
		if k > 0 && r.P(1, 10) {
			// the same text (and markup) as the cue before
			c.Lines = cs[k-1].Lines
			cs[k] = c
			continue
		}
		for l := 0; l < r.Range(1, 4); l++ {
			txt := genText(r, textOpts{amp: true, lt: true, gt: true, nbsp: true, braces: true, comma: true, ampEntity: true, bsN: true, maxWords: 5})
			pieces := splitRuns(r, txt, r.Range(1, 4))
			var runs []srtRun
			for _, p := range pieces {
				run := srtRun{Text: p}
				if r.P(1, 2) {
					run.B, run.I, run.U = r.P(1, 3), r.P(1, 3), r.P(1, 4)
					if r.P(1, 4) {
						run.Color = fw.Pick(r, srtColors)
					}
				}
				runs = append(runs, run)
			}
			// a marked-up run at the edge of a line may begin or end with a blank (<i>no </i>): it is inside the
			// element, hence text (the renderings then close every tag with its run, see srtEdgeBlanks)
			if n := len(runs); r.P(1, 8) {
				if f := &runs[0]; f.B || f.I || f.U || f.Color != "" {
					f.Text = " " + f.Text
				}
				if l := &runs[n-1]; l.B || l.I || l.U || l.Color != "" {
					l.Text += " "
				}
			}
			c.Lines = append(c.Lines, runs)
		}
		cs[k] = c
	}
	return cs
}

// srtEdgeBlanks says whether some line of the model begins or ends with a blank (inside a marked-up run)
func srtEdgeBlanks(cs []srtCue) bool {
	for _, c := range cs {
		for _, l := range c.Lines {
			if len(l) > 0 && (strings.HasPrefix(l[0].Text, " ") || strings.HasSuffix(l[len(l)-1].Text, " ")) {
				return true
			}
		}
	}
	return false
}

type srtRender struct {
	eol       string
	bom       bool
	indexKind int // 0 present, 1 absent, 2 garbage
	between   int // blank lines between cues 1..3
	atEOF     int // 0..3 blank lines at EOF, -1 = no final line terminator at all
	sep       string
	minDigits bool
	arrow     int
	coords    bool
	upper     bool
	quote     int // 0 "..", 1 '..', 2 unquoted
	tagMode   int // 0 closed per run, 1 nested stack kept across runs and closed at end of cue, 2 same but left open at end of cue
	escAll    bool
	hours1    bool
	ownLine   bool // tags opened before the first text line / closed after the last one stand on a line of their own
	idxMix    uint64
	fontAttrs bool // font elements carry face and size next to the colour
	wsBlank   bool // blank lines (between cues, at the end of the file) may hold blanks and tabs
	sepMix    bool // each time stamp picks its own millisecond separator
	innerFont bool // a colour-less <font size=..>/<font face=..> element inside a coloured run (closed with it)
}

func (o srtRender) String() string {
	return fmt.Sprintf("eol=%q bom=%v index=%d between=%d eof=%d sep=%s mind=%v arrow=%d coords=%v upper=%v quote=%d tags=%d esc=%v h1=%v sepmix=%v innerfont=%v",
		o.eol, o.bom, o.indexKind, o.between, o.atEOF, o.sep, o.minDigits, o.arrow, o.coords, o.upper, o.quote, o.tagMode, o.escAll, o.hours1, o.sepMix, o.innerFont)
}

// indexKindOf gives the index kind of cue k: 0 numeric, 1 absent, 2 garbage (indexKind 3 = mixed per cue)
func (o srtRender) indexKindOf(k int) int {
	if o.indexKind != 3 {
		return o.indexKind
	}
	return int(fw.Mix(o.idxMix, uint64(k)) % 3)
}

func srtGenRender(r *fw.Rand) srtRender {
	return srtRender{
		eol: fw.Pick(r, []string{"\n", "\r\n", "\r"}), bom: r.P(1, 3), indexKind: fw.Pick(r, []int{0, 3, 3, 1, 2}), idxMix: r.U64(),
		between: r.Range(1, 3), atEOF: r.Range(-1, 3), sep: fw.Pick(r, []string{",", "."}), minDigits: r.P(1, 3),
		sepMix: r.P(1, 6), innerFont: r.P(1, 3), wsBlank: r.P(1, 4), fontAttrs: r.P(1, 3),
		ownLine: r.P(1, 3), arrow: r.Intn(5), coords: r.P(1, 5), upper: r.P(1, 4), quote: r.Intn(3), tagMode: r.Intn(3), escAll: r.Bool(), hours1: r.P(1, 4),
	}
}

func srtFmtTime(msv int64, o srtRender) string {
	h, m, s, f := msv/3600000, msv/60000%60, msv/1000%60, msv%1000
	frac := fmt.Sprintf("%03d", f)
	if o.minDigits {
		for len(frac) > 1 && strings.HasSuffix(frac, "0") {
			frac = frac[:len(frac)-1]
		}
	}
	hs := fmt.Sprintf("%02d", h)
	if o.hours1 && h < 10 {
		hs = fmt.Sprintf("%d", h)
	}
	sep := o.sep
	if o.sepMix {
		sep = []string{",", "."}[fw.Mix(o.idxMix, uint64(msv))%2]
	}
	return fmt.Sprintf("%s:%02d:%02d%s%s", hs, m, s, sep, frac)
}

// srtEscape writes a run's text so that the format denotes exactly the text: '&' before amp;/lt;/nbsp; must be
// escaped, '<' must be escaped unless a space, a digit or the end of the line follows (it would open a tag).
func srtEscape(s, following string, all bool) string {
	var b strings.Builder
	rs := []rune(s)
	for i, c := range rs {
		// (a window of what follows is enough for the look-ahead; the whole rest would make long lines quadratic)
		end := i + 12
		if end > len(rs) {
			end = len(rs)
		}
		rest := string(rs[i:end])
		if end == len(rs) {
			rest += trunc(following, 12)
		}
		switch {
		case c == '&':
			if all || strings.HasPrefix(rest, "&amp;") || strings.HasPrefix(rest, "&lt;") || strings.HasPrefix(rest, "&nbsp;") {
				b.WriteString("&amp;")
			} else {
				b.WriteRune(c)
			}
		case c == '<':
			safe := i+1 < len(rs) && (rs[i+1] == ' ' || unicode.IsDigit(rs[i+1]) || rs[i+1] == '\t')
			if all || !safe {
				b.WriteString("&lt;")
			} else {
				b.WriteRune(c)
			}
		case c == '\u00a0':
			if all {
				b.WriteString("&nbsp;")
			} else {
				b.WriteRune(c)
			}
		default:
			b.WriteRune(c)
		}
	}
	return b.String()
}

type srtTag struct {
	name, color string
}

func (t srtTag) open(o srtRender) string {
	n := t.name
	if o.upper {
		n = strings.ToUpper(n)
	}
	if t.name != "font" {
		return "<" + n + ">"
	}
	a := "color"
	if o.upper {
		a = "COLOR"
	}
	// other attributes of the element, before and after the colour (face and size, as DVD rips and editors write them)
	pre, post := "", ""
	if o.fontAttrs {
		switch len(t.color) % 3 {
		case 0:
			post = ` face="Arial" size="18"`
		case 1:
			pre = ` size="18"`
		default:
			pre, post = ` face='Courier New'`, ` size=18`
		}
	}
	switch o.quote {
	case 1:
		return "<" + n + pre + " " + a + "='" + t.color + "'" + post + ">"
	case 2:
		if !strings.ContainsAny(t.color, " (),") {
			return "<" + n + pre + " " + a + "=" + t.color + post + ">"
		}
	}
	return "<" + n + pre + " " + a + "=\"" + t.color + "\"" + post + ">"
}

func (t srtTag) close(o srtRender) string {
	n := t.name
	if o.upper {
		n = strings.ToUpper(n)
	}
	return "</" + n + ">"
}

func srtWanted(run srtRun, order []string) []srtTag {
	var ts []srtTag
	for _, n := range order {
		switch {
		case n == "b" && run.B, n == "i" && run.I, n == "u" && run.U:
			ts = append(ts, srtTag{name: n})
		case n == "font" && run.Color != "":
			ts = append(ts, srtTag{"font", run.Color})
		}
	}
	return ts
}

func srtRenderDoc(cs []srtCue, o srtRender, r *fw.Rand) []byte {
	var b strings.Builder
	if o.bom {
		b.WriteString("\xef\xbb\xbf")
	}
	order := []string{"b", "i", "u", "font"}
	fw.Shuffle(r, order)
	for k, c := range cs {
		switch o.indexKindOf(k) {
		case 0:
			b.WriteString(strconv.Itoa(c.Index) + o.eol)
		case 2:
			b.WriteString(fw.Pick(r, []string{"abc", "#1", "1a", "x 2", "--", "20240131235959123456", "99999999999999999999999999", "1.5", "0x10", "\u0661\u0662", "\uff11"}) + o.eol)
		}
		arrow := []string{" --> ", "-->", "\t-->\t", "  -->  ", " -->"}[o.arrow]
		b.WriteString(srtFmtTime(c.Start, o) + arrow + srtFmtTime(c.End, o))
		if o.coords {
			// the coordinates follow after blanks and/or tabs
			b.WriteString([]string{"  ", " ", "\t", " \t ", "\t\t"}[fw.Mix(o.idxMix, uint64(k), 0xc0)%5] + "X1:100 X2:200 Y1:050 Y2:100")
		}
		b.WriteString(o.eol)
		var stack []srtTag
		skipRun := false
		for _, line := range c.Lines {
			for ri, run := range line {
				following := ""
				for _, nr := range line[ri+1:] {
					following += nr.Text
				}
				want := srtWanted(run, order)
				if skipRun {
					skipRun = false
					continue
				}
				if o.tagMode == 0 {
					for _, t := range want {
						b.WriteString(t.open(o))
					}
					if nx := ri + 1; o.innerFont && nx < len(line) && run.Color != "" && line[nx].Color != "" && line[nx].Color != run.Color && run.B == line[nx].B && run.I == line[nx].I && run.U == line[nx].U {
						// round 13: the next run differs in colour only and is written as a coloured element inside this
						// one; both are closed together behind it. What was read before the inner element keeps its colour
						inner := srtTag{"font", line[nx].Color}
						b.WriteString(srtEscape(run.Text, following, o.escAll))
						b.WriteString(inner.open(o))
						rest := ""
						for _, nr := range line[nx+1:] {
							rest += nr.Text
						}
						b.WriteString(srtEscape(line[nx].Text, rest, o.escAll))
						b.WriteString(inner.close(o))
						for i := len(want) - 1; i >= 0; i-- {
							b.WriteString(want[i].close(o))
						}
						skipRun = true
						continue
					}
					rs := []rune(run.Text)
					if cut := len(rs) / 2; o.innerFont && run.Color != "" && cut > 0 && strings.TrimSpace(string(rs[:cut])) != "" && strings.TrimSpace(string(rs[cut:])) != "" {
						// the inner element says nothing about the colour: the whole run keeps the colour of the outer one
						inner := srtTag{name: "font"}
						b.WriteString(srtEscape(string(rs[:cut]), string(rs[cut:])+following, o.escAll))
						b.WriteString(strings.TrimSuffix(inner.close(o), ">")[:1] + strings.TrimSuffix(inner.close(o), ">")[2:] + fw.Pick(r, []string{` size="12">`, ` face="Arial">`, ` size=+1 face='Courier New'>`}))
						b.WriteString(srtEscape(string(rs[cut:]), following, o.escAll))
						b.WriteString(inner.close(o))
					} else {
						b.WriteString(srtEscape(run.Text, following, o.escAll))
					}
					for i := len(want) - 1; i >= 0; i-- {
						b.WriteString(want[i].close(o))
					}
					continue
				}
				// keep a properly nested stack across runs and lines: pop down to the common prefix
				common := 0
				for common < len(stack) && common < len(want) && stack[common] == want[common] {
					common++
				}
				for i := len(stack) - 1; i >= common; i-- {
					b.WriteString(stack[i].close(o))
				}
				stack = stack[:common]
				for _, t := range want[common:] {
					b.WriteString(t.open(o))
					stack = append(stack, t)
				}
				if o.ownLine && ri == 0 && len(want) > common && r.Bool() {
					b.WriteString(o.eol) // the opening tags stand on a line of their own: it denotes no text line
				}
				b.WriteString(srtEscape(run.Text, following, o.escAll))
			}
			b.WriteString(o.eol)
		}
		if o.tagMode == 1 && len(stack) > 0 {
			// close on the last line (re-open the line: remove the EOL we just wrote)
			s := b.String()
			s = strings.TrimSuffix(s, o.eol)
			b.Reset()
			b.WriteString(s)
			if o.ownLine {
				b.WriteString(o.eol) // the closing tags stand on a line of their own
			}
			for i := len(stack) - 1; i >= 0; i-- {
				b.WriteString(stack[i].close(o))
			}
			b.WriteString(o.eol)
		}
		if k < len(cs)-1 {
			for j := 0; j < o.between; j++ {
				if o.wsBlank && (j > 0 || o.between == 1) && r.Bool() {
					b.WriteString(fw.Pick(r, []string{" ", "\t", "  \t "})) // a blank line may hold blanks
				}
				b.WriteString(o.eol)
			}
		}
	}
	s := b.String()
	if len(cs) > 0 {
		if o.atEOF < 0 {
			s = strings.TrimSuffix(s, o.eol)
		} else {
			for j := 0; j < o.atEOF; j++ {
				if o.wsBlank && r.Bool() {
					s += fw.Pick(r, []string{" ", "\t", "  \t "})
				}
				s += o.eol
			}
		}
	}
	return []byte(s)
}

// srtProject maps the library's result to the denotation
func srtProject(s *astisub.Subtitles) []srtCue {
	var out []srtCue
	for _, it := range s.Items {
		c := srtCue{Start: int64(it.StartAt / time.Millisecond), End: int64(it.EndAt / time.Millisecond), Index: it.Index}
		if it.StartAt%time.Millisecond != 0 || it.EndAt%time.Millisecond != 0 {
			c.Start = -int64(it.StartAt) // not on the ms grid: make it visible
		}
		for _, l := range it.Lines {
			var runs []srtRun
			for _, li := range l.Items {
				run := srtRun{Text: li.Text}
				if sa := li.InlineStyle; sa != nil {
					run.B, run.I, run.U = sa.SRTBold, sa.SRTItalics, sa.SRTUnderline
					if sa.SRTColor != nil {
						run.Color = *sa.SRTColor
					}
					// the colour is also handed on under the name the other formats read it by: it is the run's own
					// colour there too, and no colour when the run has none
					if sa.TTMLColor != nil && (sa.SRTColor == nil || *sa.TTMLColor != *sa.SRTColor) {
						run.Color += " (handed on to the other formats as " + *sa.TTMLColor + ")"
					}
				}
				runs = append(runs, run)
			}
			c.Lines = append(c.Lines, runs)
		}
		out = append(out, c)
	}
	return out
}

func srtBuild(cs []srtCue) *astisub.Subtitles {
	s := astisub.NewSubtitles()
	for _, c := range cs {
		it := &astisub.Item{StartAt: time.Duration(c.Start) * time.Millisecond, EndAt: time.Duration(c.End) * time.Millisecond}
		for _, l := range c.Lines {
			line := astisub.Line{}
			for _, run := range l {
				li := astisub.LineItem{Text: run.Text}
				if run.B || run.I || run.U || run.Color != "" {
					li.InlineStyle = &astisub.StyleAttributes{SRTBold: run.B, SRTItalics: run.I, SRTUnderline: run.U}
					if run.Color != "" {
						col := run.Color
						li.InlineStyle.SRTColor = &col
					} else if len(run.Text)%3 == 0 {
						// a colour the run had in another format (or once had in this one): its SubRip colour is unset
						other := "#123456"
						li.InlineStyle.TTMLColor = &other
					}
				}
				line.Items = append(line.Items, li)
			}
			it.Lines = append(it.Lines, line)
		}
		s.Items = append(s.Items, it)
	}
	return s
}

var srtReTiming = regexp.MustCompile(`^(\d{2,}):(\d\d):(\d\d),(\d\d\d) --> (\d{2,}):(\d\d):(\d\d),(\d\d\d)$`)
var srtReTag = regexp.MustCompile(`(?i)^<(/?)(b|i|u|font)(?:\s+color="([^"]*)")?>`)

// srtDecode is the harness's own SubRip decoder for what a writer may emit (LF line ends, BOM optional)
func srtDecode(b []byte) ([]srtCue, error) {
	s := strings.TrimPrefix(string(b), "\xef\xbb\xbf")
	if strings.Contains(s, "\r") {
		return nil, fmt.Errorf("CR in writer output")
	}
	lines := strings.Split(s, "\n")
	var out []srtCue
	i := 0
	for i < len(lines) {
		if lines[i] == "" {
			i++
			continue
		}
		idx, err := strconv.Atoi(lines[i])
		if err != nil {
			return nil, fmt.Errorf("line %d: expected a cue number, got %q", i+1, lines[i])
		}
		if i+1 >= len(lines) {
			return nil, fmt.Errorf("cue number %d without timing line", idx)
		}
		m := srtReTiming.FindStringSubmatch(lines[i+1])
		if m == nil {
			return nil, fmt.Errorf("line %d: bad timing line %q", i+2, lines[i+1])
		}
		n := func(k int) int64 { v, _ := strconv.ParseInt(m[k], 10, 64); return v }
		if n(2) >= 60 || n(3) >= 60 || n(6) >= 60 || n(7) >= 60 {
			return nil, fmt.Errorf("timing field out of range in %q", lines[i+1])
		}
		c := srtCue{Index: idx, Start: n(1)*3600000 + n(2)*60000 + n(3)*1000 + n(4), End: n(5)*3600000 + n(6)*60000 + n(7)*1000 + n(8)}
		i += 2
		var cur srtRun
		for i < len(lines) && lines[i] != "" {
			var runs []srtRun
			rest := lines[i]
			var text strings.Builder
			flush := func() {
				if text.Len() > 0 {
					run := cur
					run.Text = text.String()
					runs = append(runs, run)
					text.Reset()
				}
			}
			for len(rest) > 0 {
				if m := srtReTag.FindStringSubmatch(rest); m != nil {
					flush()
					on := m[1] == ""
					switch strings.ToLower(m[2]) {
					case "b":
						cur.B = on
					case "i":
						cur.I = on
					case "u":
						cur.U = on
					case "font":
						if on {
							cur.Color = m[3]
						} else {
							cur.Color = ""
						}
					}
					rest = rest[len(m[0]):]
					continue
				}
				switch {
				case strings.HasPrefix(rest, "&amp;"):
					text.WriteString("&")
					rest = rest[5:]
				case strings.HasPrefix(rest, "&lt;"):
					text.WriteString("<")
					rest = rest[4:]
				case strings.HasPrefix(rest, "&nbsp;"):
					text.WriteString(" ")
					rest = rest[6:]
				default:
					_, size := decodeRune(rest)
					text.WriteString(rest[:size])
					rest = rest[size:]
				}
			}
			flush()
			c.Lines = append(c.Lines, runs)
			i++
		}
		out = append(out, c)
	}
	return out, nil
}

func decodeRune(s string) (rune, int) {
	for i, c := range s {
		if i > 0 {
			return 0, i
		}
		_ = c
	}
	return 0, len(s)
}

func c01Reader(c *fw.Ctx) fw.Outcome {
	model := srtGenModel(c.R)
	if c.Idx%8 == 7 {
		// a document larger than the scanner's buffer: line ends fall on buffer boundaries
		model = srtGenModelN(c.R, c.R.Range(40, 90))
	}
	if c.Idx%256 == 15 {
		// a script of an hour or two: more than 64 KiB, whatever the line-end convention
		model = srtGenModelN(c.R, c.R.Range(900, 1500))
	}
	// several renderings of the same model
	for k := 0; k < 4; k++ {
		o := srtGenRender(c.R)
		if srtEdgeBlanks(model) {
			o.tagMode = 0 // every tag is closed with its run: the blank stays inside the element
		}
		mixed := c.R.P(1, 6)
		if mixed {
			o.eol = "\n"
		}
		doc := srtRenderDoc(model, o, c.R)
		if mixed {
			doc, o.eol = mixEOL(c.R, doc), "mixed"
		}
		key := fw.HashBytes(doc)
		var got *astisub.Subtitles
		var err error
		if p := guard(func() { got, err = astisub.ReadFromSRT(bytes.NewReader(doc)) }); p != "" {
			return fw.Bad(key, string(doc), "reader panicked on rendering {%s}: %s", o, p)
		}
		if err != nil {
			return fw.Bad(key, string(doc), "reader rejected a well-formed document (rendering {%s}): %v\n%q", o, err, trunc(string(doc), 600))
		}
		// the cue number is compared where the rendering carries a decimal one
		expM, gotM := append([]srtCue(nil), model...), srtProject(got)
		for k := range expM {
			if o.indexKindOf(k) != 0 {
				expM[k].Index = 0
				if k < len(gotM) {
					gotM[k].Index = 0
				}
			}
		}
		exp, have := srtDenote(expM, true), srtDenote(gotM, true)
		if exp != have {
			return fw.Bad(key, string(doc), "SRT reader, rendering {%s}: %s\ndocument: %q", o, firstDiff(exp, have), trunc(string(doc), 900))
		}
		c.Feature(fmt.Sprintf("read eol=%q bom=%v idx=%d sep=%s tags=%d eof=%d", o.eol, o.bom, o.indexKind, o.sep, o.tagMode, o.atEOF))
		if c.Idx%4 == 1 {
			if msg := altEntryPoints(c, "srt", doc, got, nil); msg != "" {
				return fw.Bad(key, string(doc), "%s", msg)
			}
		}
		c.Count("reader_documents", 1)
	}
	c.Count("reader_cues", int64(len(model)))
	return fw.OK(fw.HashString(srtDenote(model, true)), map[string]interface{}{"direction": "read", "model": srtDenote(model, true)})
}

func c01Writer(c *fw.Ctx) fw.Outcome {
	model := srtGenModel(c.R)
	// a run made of no-break spaces only is representable (written as &nbsp;) and must survive the round trip
	for k := range model {
		for l := range model[k].Lines {
			if c.R.P(1, 6) {
				runs := model[k].Lines[l]
				i := c.R.Intn(len(runs) + 1)
				nb := srtRun{Text: strings.Repeat("\u00a0", c.R.Range(1, 2)), B: c.R.Bool(), I: c.R.Bool()}
				model[k].Lines[l] = append(runs[:i:i], append([]srtRun{nb}, runs[i:]...)...)
			}
		}
	}
	if len(model) == 0 {
		// an empty list is the nothing-to-write error
		var b bytes.Buffer
		if err := astisub.NewSubtitles().WriteToSRT(&b); err != astisub.ErrNoSubtitlesToWrite {
			return fw.Bad(1, nil, "writing an empty list returned %v", err)
		}
		return fw.Skip()
	}
	sub := srtBuild(model)
	var b bytes.Buffer
	var err error
	if p := guard(func() { err = sub.WriteToSRT(&b) }); p != "" || err != nil {
		return fw.Bad(fw.HashString(srtDenote(model, false)), nil, "writer failed: %v %s", err, p)
	}
	if c.Idx%4 == 3 {
		if msg := altWrite(c, "srt", sub, b.Bytes()); msg != "" {
			return fw.Bad(fw.HashBytes(b.Bytes()), b.String(), "%s", msg)
		}
	}
	doc := b.Bytes()
	key := fw.HashBytes(doc)
	for k := range model {
		model[k].Index = k + 1 // written documents are numbered consecutively
	}
	exp := srtDenote(model, true)
	// (a) independent decoder
	dec, derr := srtDecode(doc)
	if derr != nil {
		return fw.Bad(key, string(doc), "the independent SubRip decoder rejects the writer's output: %v\n%q", derr, trunc(string(doc), 900))
	}
	if have := srtDenote(dec, true); have != exp {
		return fw.Bad(key, string(doc), "SRT writer -> independent decoder: %s\ndocument: %q", firstDiff(exp, have), trunc(string(doc), 900))
	}
	// (b) the library's own reader
	var got *astisub.Subtitles
	if p := guard(func() { got, err = astisub.ReadFromSRT(bytes.NewReader(doc)) }); p != "" || err != nil {
		return fw.Bad(key, string(doc), "library reader failed on the writer's output: %v %s", err, p)
	}
	if have := srtDenote(srtProject(got), true); have != exp {
		return fw.Bad(key, string(doc), "SRT writer -> library reader: %s\ndocument: %q", firstDiff(exp, have), trunc(string(doc), 900))
	}
	c.Feature(fmt.Sprintf("write cues=%d", len(model)))
	c.Count("writer_documents", 1)
	return fw.OK(key, map[string]interface{}{"direction": "write", "document": trunc(string(doc), 400)})
}

func init() {
	n := func(tier string) int64 { return tierN(tier, 4000, 240000) }
	fw.Register(&fw.Property{
		ID:    "C01",
		Level: "exploration",
		Rule: "reader cases: a random ground-truth cue list (0..6 cues, times in [0,100h) at 1 ms biased to carries, 1..4 lines, 1..4 styled runs over a hostile alphabet: BMP/astral/combining/RTL, &, <, >, NBSP, literal &amp;/&lt;, tag look-alikes) rendered 4 ways (EOL LF/CRLF/CR, BOM, index present/absent/garbage, 1..3 blank lines between cues, -1..3 at EOF, ',' or '.', 1..3 fraction digits, 1- or 2-digit hours, 5 arrow spacings, trailing coordinates, tag case, quoted/single-quoted/unquoted colour, tags closed per run (a run that differs from the one before it in colour only may be a coloured element inside that one) / nested across runs and lines / left open at the end of the cue, minimal or full escaping) and read by the library; the projection of the result must equal the model rune by rune (text + bold/italic/underline/colour), to the millisecond. " +
			"writer cases: the same models built from the public types, written, then decoded by the harness's own SubRip decoder and by the library reader; both must equal the model and the cue numbers must be 1..n. sweep cases: every block of 256 code points (quick: the BMP and one block per other plane; thorough: all 4352 blocks) written as cue text, 32 characters to a cue, and read back unchanged (white space, controls and the markup characters of the format left out). distinct_nontrivial = distinct documents compared.",
		Assumptions: []string{"no white space at line edges, no white-space-only runs, no blank lines inside a cue, no line terminators or '-->' in text (the property's quantifier)", "a literal '<' is left raw only before a space, a tab or a digit"},
		Cases:       func(tier string) int64 { return 2*n(tier) + sweepBlocks(tier) },
		Anchors:     []string{"ReadFromSRT", "parseTextSrt", "parseDurationSRT", "WriteToSRT", "Line.srtBytes", "LineItem.srtBytes", "newScanner", "escapeHTML", "unescapeHTML"},
		Run: func(c *fw.Ctx) fw.Outcome {
			if k := c.Idx - 2*n(c.Tier); k >= 0 {
				return sweepCase(c, k, "srt", "<>&",
					func(s *astisub.Subtitles, b *bytes.Buffer) error { return s.WriteToSRT(b) },
					func(b []byte) (*astisub.Subtitles, error) { return astisub.ReadFromSRT(bytes.NewReader(b)) })
			}
			if c.Idx < n(c.Tier) {
				return c01Reader(c)
			}
			return c01Writer(c)
		},
	})
}
