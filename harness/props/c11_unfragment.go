package props

import (
	"fmt"
	"sort"
	"strings"
	"time"

	astisub "github.com/asticode/go-astisub"
	"verif/harness/fw"
)

// C11 Unfragment: fix-point specification + derived invariants + inverse law with Fragment + CLI.

type c11Cue struct {
	tcue
	orig int
}

// c11Spec: stable sort by start, then repeatedly merge the first pair (i<j) with the same text and
// end_i >= start_j into i (end = max), until no such pair is left.
func c11Spec(cs []tcue) []c11Cue {
	l := make([]c11Cue, len(cs))
	for k, c := range cs {
		l[k] = c11Cue{c, k}
	}
	sort.SliceStable(l, func(i, j int) bool { return l[i].S < l[j].S })
	for {
		merged := false
	outer:
		for i := 0; i < len(l); i++ {
			for j := i + 1; j < len(l); j++ {
				if l[i].T == l[j].T && l[i].E >= l[j].S {
					if l[j].E > l[i].E {
						l[i].E = l[j].E
					}
					l = append(l[:j], l[j+1:]...)
					merged = true
					break outer
				}
			}
		}
		if !merged {
			return l
		}
	}
}

func c11Touching(cs []tcue) bool {
	for i := range cs {
		for j := range cs {
			if i != j && cs[i].T == cs[j].T && cs[i].S <= cs[j].S && cs[i].E >= cs[j].S {
				return true
			}
		}
	}
	return false
}

// texts on screen at instant t (doubled coordinates so that mid-points are integers)
func c11OnScreen(cs []tcue, t2 int64) string {
	set := map[string]bool{}
	for _, c := range cs {
		if 2*c.S <= t2 && t2 < 2*c.E {
			set[c.T] = true
		}
	}
	var ks []string
	for k := range set {
		ks = append(ks, k)
	}
	sort.Strings(ks)
	return fmt.Sprint(ks)
}

var (
	c11Region = &astisub.Region{ID: "rg", InlineStyle: &astisub.StyleAttributes{WebVTTWidth: "40%"}}
	c11Style  = &astisub.Style{ID: "st", InlineStyle: &astisub.StyleAttributes{SRTBold: true}}
)

func c11Check(cs []tcue) string { return c11Check2(cs, false) }

func c11Check2(cs []tcue, warm bool) string {
	sub := astisub.NewSubtitles()
	snaps := make([]string, len(cs))
	rollup := map[string][]astisub.Line{} // first row -> the rows shared by the cues that begin with it
	for k, c := range cs {
		it := textItem(time.Duration(c.S), time.Duration(c.E), c.T)
		if c.T == "" {
			// a cue without text (an image-only or cleared cue) - no line at all, one line without runs, or one run
			// of no characters: the empty text in all three shapes
			switch k % 3 {
			case 0:
				it.Lines = nil
			case 1:
				it.Lines = []astisub.Line{{}}
			}
		}
		if strings.Contains(c.T, "\n") {
			// a multi-line cue (roll-up captions share their first lines)
			// the rows of roll-up captions share one backing array, each cue showing a longer prefix of it
			parts := strings.Split(c.T, "\n")
			arr := rollup[parts[0]]
			ok := true
			for i := 0; i < len(parts) && i < len(arr); i++ {
				ok = ok && len(arr[i].Items) == 1 && arr[i].Items[0].Text == parts[i]
			}
			if !ok {
				arr = nil // not a longer or shorter version of the rows seen so far: rows of its own
			}
			if arr == nil {
				arr = make([]astisub.Line, 0, 8)
			}
			for i := len(arr); i < len(parts); i++ {
				arr = append(arr, astisub.Line{Items: []astisub.LineItem{{Text: parts[i]}}})
			}
			if ok {
				rollup[parts[0]] = arr
			}
			it.Lines = arr[:len(parts)]
		}
		decorate(it, k)
		it.Index = k
		// some cues sit in a region, some have a style, some neither: merging two of them is no reason to pass them on
		switch k % 4 {
		case 0:
			it.Region = c11Region
		case 1:
			it.Style = c11Style
		case 2:
			it.Region, it.Style = c11Region, c11Style
		}
		sub.Items = append(sub.Items, it)
	}
	for k, it := range sub.Items {
		snaps[k] = snapItem(it) // (once the list is complete: cues that share rows share what decorates them)
	}
	ptrs := append([]*astisub.Item(nil), sub.Items...)
	someMetadata(sub, len(cs))
	if warm {
		if p := guard(func() { prewarm(sub) }); p != "" {
			return p
		}
	}
	if p := guard(func() { sub.Unfragment() }); p != "" {
		return p
	}
	exp := c11Spec(cs)
	got := cuesOf(sub.Items)
	if len(got) != len(exp) {
		return fmt.Sprintf("Unfragment on %s: got %s, specification %s", fmtCues(cs), fmtCues(got), fmtExp(exp))
	}
	for k, x := range exp {
		it := sub.Items[k]
		if it != ptrs[x.orig] || int64(it.StartAt) != x.S || int64(it.EndAt) != x.E {
			return fmt.Sprintf("Unfragment on %s: got %s, specification %s (position %d should be original cue #%d)", fmtCues(cs), fmtCues(got), fmtExp(exp), k, x.orig)
		}
		if snapItem(it) != snaps[x.orig] {
			return fmt.Sprintf("Unfragment on %s: content of cue #%d changed", fmtCues(cs), x.orig)
		}
	}
	// derived invariants, stated directly on the output
	if c11Touching(got) {
		return fmt.Sprintf("Unfragment on %s: two cues with the same text still touch or overlap in %s", fmtCues(cs), fmtCues(got))
	}
	var pts []int64
	for _, c := range cs {
		pts = append(pts, 2*c.S, 2*c.E, 2*c.S+1, 2*c.E-1, 2*c.E+1)
	}
	for _, t2 := range pts {
		if a, b := c11OnScreen(cs, t2), c11OnScreen(got, t2); a != b {
			return fmt.Sprintf("Unfragment on %s: texts on screen at t=%.1f changed from %s to %s (result %s)", fmtCues(cs), float64(t2)/2, a, b, fmtCues(got))
		}
	}
	return ""
}

func fmtExp(e []c11Cue) string {
	cs := make([]tcue, len(e))
	for k, x := range e {
		cs[k] = x.tcue
	}
	return fmtCues(cs)
}

// inverse law: Unfragment(Fragment(L,f)) == L for start-ordered L free of touching same-text cues
func c11Inverse(cs []tcue, f int64) string {
	if c11Touching(cs) {
		return "n/a"
	}
	for k := 1; k < len(cs); k++ {
		if cs[k].S < cs[k-1].S {
			return "n/a"
		}
	}
	sub := astisub.NewSubtitles()
	for _, c := range cs {
		sub.Items = append(sub.Items, textItem(time.Duration(c.S), time.Duration(c.E), c.T))
	}
	if p := guard(func() { sub.Fragment(time.Duration(f)); sub.Unfragment() }); p != "" {
		return p
	}
	got := cuesOf(sub.Items)
	a, b := append([]tcue(nil), cs...), append([]tcue(nil), got...)
	for k := 1; k < len(b); k++ {
		if b[k].S < b[k-1].S {
			return fmt.Sprintf("Unfragment(Fragment(%s, %d)) is not ordered by start: %s", fmtCues(cs), f, fmtCues(got))
		}
	}
	sortCues(a)
	sortCues(b)
	if fmtCues(a) != fmtCues(b) {
		return fmt.Sprintf("Unfragment(Fragment(%s, %d)) = %s: the list is not restored", fmtCues(cs), f, fmtCues(got))
	}
	return ""
}

const c11Pairs = 21

func c11GridN(tier string) int64 {
	// lists of 0..4 cues on 0..5 (any order) with 3 texts: (21*3)^k
	n := int64(1 + 63 + 63*63 + 63*63*63)
	if tier == "thorough" {
		n += 63 * 63 * 63 * 63
	}
	return n
}

func c11Decode(idx int64) []tcue {
	var l int
	var count int64 = 1
	for l = 0; idx >= count; l++ {
		idx -= count
		count *= 63
	}
	cs := make([]tcue, l)
	for i := 0; i < l; i++ {
		v := int(idx % 63)
		idx /= 63
		s, e := c09Pair(v % 21)
		cs[i] = tcue{s, e, string(rune('a' + v/21))}
	}
	return cs
}

// c11Colliding: pairs of distinct texts with the same FNV-1 / FNV-1a / Adler-32 / CRC-32 / 31- and 33-multiplier hash
// (found by a birthday search over 400 000 six-letter strings, frozen here; the last ones are well-known pairs)
var c11Colliding = [][2]string{
	{"lbbzls", "ebslxk"}, {"iedply", "beubxq"}, {"ihgtdj", "bhxfpb"}, // adler32
	{"mkgmmj", "lkyhhq"}, {"arbvyf", "dsjhfs"}, {"ylapzz", "cktztd"}, // fnv32
	{"dkpofy", "ejiirr"}, {"olqflm", "fzvdzq"}, {"mfzois", "ziqpjb"}, {"costarring", "liquid"}, // fnv32a
	{"plumless", "buckeroo"},   // crc32
	{"Aa", "BB"}, {"az", "bY"}, // h*31+c, h*33+c
}

func c11Random(r *fw.Rand) ([]tcue, int64) {
	n := r.Intn(61)
	unit := fw.Pick(r, []int64{1, 1000000, 1000000000})
	texts := []string{"a", "b", "c"}[:r.Range(1, 3)]
	if r.P(1, 3) {
		texts = []string{"Hello", "Hello\nworld", "\nHello", "Hello\nworld\nagain"}[:r.Range(2, 4)]
	}
	if r.P(1, 8) {
		// texts that are different but alike to a digest: pairs that collide under the common 32-bit string hashes
		pair := fw.Pick(r, c11Colliding)
		texts = []string{pair[0], pair[1]}
		if r.Bool() {
			texts = append(texts, "a")
		}
	} else if r.P(1, 8) {
		// texts that differ only in case, in trailing white space, in a combining sequence or in the line split
		texts = fw.Pick(r, [][]string{{"Hello", "hello"}, {"Hello", "Hello "}, {"\u00e9t\u00e9", "e\u0301te\u0301"}, {"a\nb", "a b", "ab"}, {"a\n", "a"}})
	}
	if r.P(1, 6) {
		texts = append(append([]string(nil), texts...), "") // cues without lines among the others
	}
	// the instants: from zero, hours into a long tape, or counted from the Unix epoch as the segments of a live stream are
	base := fw.Pick(r, []int64{0, 0, 0, 0, 0, 40 * 3600e9, 2600*3600e9 + 7, 1790000000e9 + 1001})
	cs := make([]tcue, n)
	for i := range cs {
		s := base + r.I64n(200)*unit
		e := s + r.I64n(30)*unit
		cs[i] = tcue{s, e, fw.Pick(r, texts)}
	}
	return cs, unit
}

func c11CLI(c *fw.Ctx) fw.Outcome {
	r := c.R
	n := r.Range(1, 8)
	cs := make([]tcue, n)
	for i := range cs {
		s := int64(r.Intn(40)) * 250
		cs[i] = tcue{s * 1e6, (s + int64(r.Range(1, 12))*250) * 1e6, fw.Pick(r, []string{"alpha", "beta"})}
	}
	in, out, _, formats := cliFiles(c, r, cs) // (all times are multiples of 250 ms: every format holds them exactly)
	key := hashCues(cs, 0xc11)
	msg, err := cli("unfragment", "-i", in, "-o", out)
	if err != nil {
		return fw.Bad(key, nil, "CLI unfragment on %s failed: %v %s", fmtCues(cs), err, msg)
	}
	got, err := astisub.OpenFile(out)
	if err != nil {
		return fw.Bad(key, nil, "CLI unfragment output unreadable: %v", err)
	}
	if a, b := fmtExp(c11Spec(cs)), fmtCues(cuesOf(got.Items)); a != b {
		return fw.Bad(key, nil, "CLI unfragment (%s) on %s: got %s, specification %s", formats, fmtCues(cs), b, a)
	}
	c.Count("cli_unfragment_runs", 1)
	return fw.OK(key, map[string]interface{}{"cli": "unfragment", "cues": fmtCues(cs)})
}

func init() {
	randomN := func(tier string) int64 { return tierN(tier, 30000, 1500000) }
	cliN := func(tier string) int64 { return tierN(tier, 96, 1000) }
	fw.Register(&fw.Property{
		ID:    "C11",
		Level: "exploration",
		Rule: "case = one cue list; Unfragment compared with the fix-point specification (stable sort by start; merge the first same-text pair with end_i >= start_j into i, end = max; repeat), survivor identity and content, plus the derived invariants (no same-text cues touch/overlap, set of texts on screen unchanged at every boundary and mid-point) and, where applicable, Unfragment(Fragment(L,f)) == L for f in 1..5 (grid) or random f. " +
			"Grid (exhaustive): every list of 0..3 cues (0..4 thorough) with s<=e on 0..5 and texts in {a,b,c}, in any order. Random: <=60 cues, 1..3 texts. CLI: 'astisub unfragment'. One random case in 8 uses texts that collide under FNV-1, FNV-1a, Adler-32, CRC-32 or the 31/33-multiplier string hashes, one in 8 texts that differ only in case, a trailing blank, the normalisation form or the line split; a quarter of the lists have a past (see C09). One random case in 8 uses texts that collide under FNV-1, FNV-1a, Adler-32, CRC-32 or the 31/33-multiplier string hashes, one in 8 texts that differ only in case, a trailing blank, the normalisation form or the line split; a quarter of the lists have a past (see C09). distinct_nontrivial = distinct lists compared.",
		Assumptions: []string{"text identity of cues is Item.String() equality; generated texts are single-line so it coincides with text equality"},
		Cases:       func(tier string) int64 { return c11GridN(tier) + randomN(tier) + cliN(tier) },
		Exhaustive: func(tier string) string {
			return fmt.Sprintf("all %d grid lists (any order, 3 texts) and, for the applicable ones, every f in 1..5 of the inverse law", c11GridN(tier))
		},
		Anchors: []string{"Subtitles.Unfragment", "Item.String", "Subtitles.Fragment", "astisub/main.go unfragment"},
		Run: func(c *fw.Ctx) fw.Outcome {
			g := c11GridN(c.Tier)
			switch {
			case c.Idx < g:
				cs := c11Decode(c.Idx)
				if msg := c11Check2(cs, c.Idx%4 == 1); msg != "" {
					return fw.Bad(hashCues(cs), nil, "%s", msg)
				}
				for f := int64(1); f <= 5; f++ {
					switch msg := c11Inverse(cs, f); msg {
					case "":
						c.Count("inverse_law_checked", 1)
					case "n/a":
					default:
						return fw.Bad(hashCues(cs), nil, "%s", msg)
					}
				}
				c.Feature(fmt.Sprintf("grid len=%d", len(cs)))
				return fw.OK(hashCues(cs), map[string]interface{}{"cues": fmtCues(cs)})
			case c.Idx < g+randomN(c.Tier):
				cs, unit := c11Random(c.R)
				if msg := c11Check2(cs, c.Idx%4 == 1); msg != "" {
					return fw.Bad(hashCues(cs), nil, "%s", msg)
				}
				// inverse law on a derived applicable list: the specification's own output, start-ordered
				var base []tcue
				for _, x := range c11Spec(cs) {
					base = append(base, x.tcue)
				}
				// periods from a third of a unit to beyond the timeline (at most ~700 pieces per cue)
				f := (c.R.I64n(300*3) + 1) * unit / 3
				if f < 1 {
					f = 1 + c.R.I64n(300)
				}
				switch msg := c11Inverse(base, f); msg {
				case "":
					c.Count("inverse_law_checked", 1)
				case "n/a":
				default:
					return fw.Bad(hashCues(cs), nil, "%s", msg)
				}
				c.Feature(fmt.Sprintf("random len=%d", len(cs)/10*10))
				return fw.OK(hashCues(cs), nil)
			default:
				if !haveCLI() {
					return fw.Skip()
				}
				c.Feature("cli unfragment")
				return c11CLI(c)
			}
		},
	})
}
