package props

import (
	"crypto/sha256"
	"debug/dwarf"
	"debug/elf"
	"encoding/binary"
	"encoding/hex"
	"fmt"
	"hash"
	"os"
	"sort"
	"strings"
)

// Deep variant of the data-segment monitor: the debug information of this very binary gives the type of every
// package-level variable of the library, so the walk can follow slices to their backing arrays (which are anonymous
// static temporaries the symbol table does not name), strings to their bytes, pointers to their pointees and structs
// and arrays to their elements. Maps, channels, interfaces and functions are taken by identity (the VerifStateDigest
// hook covers the known maps by content). The result is one hash per variable over everything reachable that way.

type deepVar struct {
	name string
	addr uint64
	typ  dwarf.Type
}

var (
	deepVars []deepVar
	deepErr  error
	deepDone bool
)

func deepLoad() {
	deepDone = true
	f, err := elf.Open("/proc/self/exe")
	if err != nil {
		deepErr = err
		return
	}
	defer f.Close()
	if f.Type != elf.ET_EXEC {
		deepErr = fmt.Errorf("binary is of type %v: addresses in the debug information are not load addresses", f.Type)
		return
	}
	d, err := f.DWARF()
	if err != nil {
		deepErr = err
		return
	}
	r := d.Reader()
	for {
		e, err := r.Next()
		if err != nil {
			deepErr = err
			return
		}
		if e == nil {
			break
		}
		switch e.Tag {
		case dwarf.TagCompileUnit:
			continue // descend
		case dwarf.TagVariable:
			name, _ := e.Val(dwarf.AttrName).(string)
			loc, _ := e.Val(dwarf.AttrLocation).([]byte)
			off, ok := e.Val(dwarf.AttrType).(dwarf.Offset)
			if !ok || !strings.HasPrefix(name, datasegPrefix) || len(loc) != 9 || loc[0] != 0x03 || datasegExempt[name] {
				break
			}
			if strings.Contains(name, "..") {
				break // compiler-generated
			}
			t, err := d.Type(off)
			if err != nil {
				break
			}
			deepVars = append(deepVars, deepVar{name, binary.LittleEndian.Uint64(loc[1:]), t})
		}
		r.SkipChildren()
	}
	sort.Slice(deepVars, func(i, j int) bool { return deepVars[i].name < deepVars[j].name })
	if len(deepVars) == 0 {
		deepErr = fmt.Errorf("no variables of %s in the debug information", datasegPrefix)
	}
}

type deepWalker struct {
	mem     *os.File
	h       hash.Hash
	visited map[string]bool
	budget  int64 // bytes still allowed to be read for this variable
	err     error
}

func (w *deepWalker) read(addr uint64, n int64) []byte {
	if n <= 0 || w.err != nil {
		return nil
	}
	if w.budget -= n; w.budget < 0 {
		w.err = fmt.Errorf("budget exhausted")
		return nil
	}
	b := make([]byte, n)
	if _, err := w.mem.ReadAt(b, int64(addr)); err != nil {
		w.err = err
		return nil
	}
	return b
}

func isOpaque(name string) bool {
	return strings.HasPrefix(name, "map[") || strings.HasPrefix(name, "chan ") || strings.HasPrefix(name, "<-chan ") || strings.HasPrefix(name, "chan<- ") ||
		strings.HasPrefix(name, "func(") || strings.HasPrefix(name, "interface {") || name == "error" || name == "unsafe.Pointer" || name == "uintptr"
}

func (w *deepWalker) walk(addr uint64, t dwarf.Type, depth int) {
	if w.err != nil || t == nil {
		return
	}
	if depth > 40 {
		w.err = fmt.Errorf("too deep")
		return
	}
	size := t.Size()
	switch tt := t.(type) {
	case *dwarf.TypedefType:
		if isOpaque(tt.Name) {
			w.h.Write(w.read(addr, size))
			return
		}
		// interfaces are typedefs of runtime.iface / runtime.eface
		if st, ok := tt.Type.(*dwarf.StructType); ok && (st.StructName == "runtime.iface" || st.StructName == "runtime.eface") {
			w.h.Write(w.read(addr, size))
			return
		}
		// library types with their own lazily filled or pooled insides are taken by identity of their fields only
		w.walk(addr, tt.Type, depth+1)
	case *dwarf.PtrType:
		b := w.read(addr, 8)
		if b == nil {
			return
		}
		p := binary.LittleEndian.Uint64(b)
		if p == 0 {
			w.h.Write([]byte{0})
			return
		}
		w.h.Write([]byte{1})
		if _, void := tt.Type.(*dwarf.VoidType); void || tt.Type == nil {
			return
		}
		key := fmt.Sprintf("%x/%s", p, tt.Type.String())
		if w.visited[key] {
			return
		}
		w.visited[key] = true
		w.walk(p, tt.Type, depth+1)
	case *dwarf.StructType:
		switch {
		case strings.HasPrefix(tt.StructName, "[]") && len(tt.Field) == 3 && tt.Field[0].Name == "array":
			b := w.read(addr, 24)
			if b == nil {
				return
			}
			p, n, c := binary.LittleEndian.Uint64(b), binary.LittleEndian.Uint64(b[8:]), binary.LittleEndian.Uint64(b[16:])
			binary.Write(w.h, binary.LittleEndian, []uint64{n, c})
			pt, ok := tt.Field[0].Type.(*dwarf.PtrType)
			if !ok || p == 0 || n == 0 {
				return
			}
			es := pt.Type.Size()
			if es <= 0 || n > 1<<22 {
				return
			}
			key := fmt.Sprintf("%x/%d/%s", p, n, tt.StructName)
			if w.visited[key] {
				return
			}
			w.visited[key] = true
			if deepFlat(pt.Type) {
				w.h.Write(w.read(p, int64(n)*es))
				return
			}
			for i := uint64(0); i < n && w.err == nil; i++ {
				w.walk(p+i*uint64(es), pt.Type, depth+1)
			}
		case tt.StructName == "string" && len(tt.Field) == 2:
			b := w.read(addr, 16)
			if b == nil {
				return
			}
			p, n := binary.LittleEndian.Uint64(b), binary.LittleEndian.Uint64(b[8:])
			binary.Write(w.h, binary.LittleEndian, n)
			if p != 0 && n > 0 && n < 1<<24 {
				w.h.Write(w.read(p, int64(n)))
			}
		case tt.StructName == "sync.Once" || tt.StructName == "sync.Mutex" || tt.StructName == "sync.RWMutex" || tt.StructName == "sync.Pool" || tt.StructName == "sync.noCopy":
			// synchronisation state is not library state
		case tt.StructName == "strings.Replacer":
			// compiles itself on first use (sync.Once + algorithm value): standard-library laziness, not library state
		default:
			if tt.Incomplete {
				w.h.Write(w.read(addr, size))
				return
			}
			for _, f := range tt.Field {
				w.walk(addr+uint64(f.ByteOffset), f.Type, depth+1)
			}
		}
	case *dwarf.ArrayType:
		if tt.Count <= 0 {
			return
		}
		if deepFlat(tt.Type) {
			w.h.Write(w.read(addr, size))
			return
		}
		es := tt.Type.Size()
		for i := int64(0); i < tt.Count && w.err == nil; i++ {
			w.walk(addr+uint64(i*es), tt.Type, depth+1)
		}
	default:
		// base types, functions, anything else: the bytes themselves
		if size > 0 {
			w.h.Write(w.read(addr, size))
		}
	}
}

// deepFlat says whether a type holds no pointers at all (so that its bytes can be hashed in one go)
func deepFlat(t dwarf.Type) bool {
	switch tt := t.(type) {
	case *dwarf.IntType, *dwarf.UintType, *dwarf.BoolType, *dwarf.FloatType, *dwarf.ComplexType, *dwarf.CharType, *dwarf.UcharType:
		return true
	case *dwarf.TypedefType:
		if isOpaque(tt.Name) {
			return false
		}
		return deepFlat(tt.Type)
	case *dwarf.ArrayType:
		return deepFlat(tt.Type)
	case *dwarf.StructType:
		if tt.StructName == "string" || strings.HasPrefix(tt.StructName, "[]") || tt.Incomplete {
			return false
		}
		for _, f := range tt.Field {
			if !deepFlat(f.Type) {
				return false
			}
		}
		return true
	}
	return false
}

// deepSnapshot returns name -> hash over everything reachable from each package-level variable of the library
func deepSnapshot() (map[string]string, error) {
	if !deepDone {
		deepLoad()
	}
	if deepErr != nil {
		return nil, deepErr
	}
	mem, err := os.Open("/proc/self/mem")
	if err != nil {
		return nil, err
	}
	defer mem.Close()
	out := make(map[string]string, len(deepVars))
	for _, v := range deepVars {
		w := &deepWalker{mem: mem, h: sha256.New(), visited: map[string]bool{}, budget: 64 << 20}
		w.walk(v.addr, v.typ, 0)
		if w.err != nil {
			out[v.name] = "unreadable: " + w.err.Error()
			continue
		}
		out[v.name] = hex.EncodeToString(w.h.Sum(nil)[:8])
	}
	return out, nil
}
