package props

import (
	"bytes"
	"fmt"

	"verif/harness/fw"
)

// "vcheck dataseg": prints how many package-level variables the data-segment monitor covers and which of them a
// mixed read/transform/write workload leaves changed (none, on a tree that keeps no state)
func init() {
	fw.RegisterCommand("dataseg", func(args []string) int {
		datasegMark()
		before, err := datasegSnapshot()
		if err != nil {
			fmt.Println("dataseg: not available:", err)
			return 2
		}
		deepBefore, derr := deepSnapshot()
		r := fw.NewRand(1)
		for i := 0; i < 3000; i++ {
			d := genDoc(r, corpusFormats[i%len(corpusFormats)], false)
			guard(func() {
				if s, err := d.Read(bytes.NewReader(d.Data)); err == nil && s != nil {
					s.Add(1000)
					s.Optimize()
					s.ForceDuration(s.Duration()+5e9, true)
					for _, w := range allWriters {
						writeBytes(w, s)
					}
				}
			})
			s := richSubtitles(r)
			for _, w := range allWriters {
				writeBytes(w, s)
			}
		}
		after, _ := datasegSnapshot()
		fmt.Printf("dataseg: %d package-level variables covered; changed by the workload: %v\n", len(before), datasegDiff(before, after))
		deepAfter, _ := deepSnapshot()
		fmt.Printf("dataseg (deep, typed walk): %d variables (err=%v); changed by the workload: %v\n", len(deepBefore), derr, datasegDiff(deepBefore, deepAfter))
		for k, v := range deepBefore {
			if len(v) > 16 {
				fmt.Println("  ", k, v)
			}
		}
		if len(args) > 0 {
			for _, s := range datasegSyms {
				fmt.Println(s.name, s.size)
			}
		}
		return 0
	})
}
