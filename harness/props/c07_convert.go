package props

import (
	"fmt"
	"math/big"
	"os"
	"path/filepath"
	"sort"
	"strings"
	"time"
	"unicode"

	astisub "github.com/asticode/go-astisub"
	"verif/harness/fw"
)

// C07 Any-to-any conversion through the file API and the CLI, with operation sequences in between.

type ncue struct {
	S, E  int64 // ns
	Lines []string
	K     string // the cue's text as the source's reader returns it (what Unfragment compares), when known
}

func (c ncue) text() string { return strings.Join(c.Lines, "\n") }

// key is the text identity Unfragment goes by: the statement disregards inter-run white space when the destination's
// texts are compared, the operation itself compares the texts as they were read
func (c ncue) key() string {
	if c.K != "" {
		return c.K
	}
	return c.text()
}

var c07Words = []string{"Hello", "world", "yes", "no", "Stop", "Go", "fine", "ok", "Bob", "Eve", "one", "two", "3", "42", "a.b", "it's", "end.", "What?", "Run!"}
var c07WordsLatin = []string{"café", "Ünder", "señor", "naïve", "Åse", "über"}

var c07Sources = []string{"srt", "ssa", "ass", "stl", "ttml", "vtt", "ts"}
var c07Dests = []string{"srt", "ssa", "ass", "stl", "ttml", "vtt"}

// c07GenNeutral builds a start-ordered cue list on a grid every source format can express (multiples of 200 ms:
// whole centiseconds, whole frames at 25 and 30 fps, whole 90 kHz ticks)
func c07GenNeutral(r *fw.Rand, src, dst string, contiguous bool) []ncue {
	n := r.Range(1, 6)
	pool := c07Words
	if src != "ts" && dst != "ts" {
		pool = append(append([]string{}, c07Words...), c07WordsLatin...)
	}
	texts := make([][]string, 3)
	for i := range texts {
		for l := 0; l < r.Range(1, 2); l++ {
			var ws []string
			for w := 0; w < r.Range(1, 3); w++ {
				ws = append(ws, fw.Pick(r, pool))
			}
			texts[i] = append(texts[i], strings.Join(ws, " "))
		}
	}
	var out []ncue
	t := int64(r.Intn(50)) * 200e6
	if src != "ts" && src != "stl" && r.P(1, 6) {
		t += int64(r.Intn(12*3600*5)) * 200e6 // a programme that starts hours into the tape
	}
	for k := 0; k < n; k++ {
		if !contiguous && !r.P(1, 3) {
			t += int64(r.Intn(40)) * 200e6
		}
		e := t + int64(r.Range(1, 60))*200e6
		lines := texts[r.Intn(len(texts))]
		if r.P(1, 2) {
			var ws []string
			for w := 0; w < r.Range(1, 3); w++ {
				ws = append(ws, fw.Pick(r, pool))
			}
			lines = []string{strings.Join(ws, " ") + fmt.Sprintf(" %d", k)}
		}
		if (src == "srt" || src == "vtt") && r.P(1, 8) {
			lines = nil // a cue without payload is a readable SRT / WebVTT cue
		}
		out = append(out, ncue{S: t, E: e, Lines: lines})
		if contiguous || r.P(1, 2) {
			t = e
		} else if r.P(1, 4) {
			t += int64(r.Intn(10)) * 200e6 // overlap with the previous cue
		} else {
			t = e + int64(r.Intn(20))*200e6
		}
	}
	return out
}

// ---- renderers: neutral list -> source document of each format, with random styling / metadata

func c07RenderSource(r *fw.Rand, src string, cues []ncue) (data []byte, stlOpen bool) {
	switch src {
	case "srt":
		var m []srtCue
		for k, c := range cues {
			sc := srtCue{Start: c.S / 1e6, End: c.E / 1e6, Index: k + 1}
			for _, l := range c.Lines {
				var runs []srtRun
				for _, p := range splitRuns(r, l, r.Range(1, 3)) {
					runs = append(runs, srtRun{Text: p, B: r.P(1, 3), I: r.P(1, 3), Color: fw.Pick(r, []string{"", "", "#ff0000"})})
				}
				sc.Lines = append(sc.Lines, runs)
			}
			m = append(m, sc)
		}
		o := srtGenRender(r)
		if o.indexKind == 2 {
			o.indexKind = 0
		}
		return srtRenderDoc(m, o, r), false
	case "vtt":
		m := vttGenModel(r, false)
		m.Cues = nil
		for k, c := range cues {
			vc := vttCue{Start: c.S / 1e6, End: c.E / 1e6, ID: k + 1}
			if len(m.Regions) > 0 && r.P(1, 3) {
				vc.Region = m.Regions[0].ID
			}
			if r.P(1, 3) {
				vc.Align, vc.Position = "left", "10%"
			}
			if r.P(1, 4) {
				vc.Comments = []string{"a note"}
			}
			for _, l := range c.Lines {
				line := vttLine{}
				if r.P(1, 4) {
					line.Voice = "Bob"
				}
				for _, p := range splitRuns(r, l, r.Range(1, 3)) {
					seg := vttSeg{Text: p}
					if r.P(1, 3) {
						seg.Tags = []vttTag{fw.Pick(r, vttTagPool)}
					}
					line.Segs = append(line.Segs, seg)
				}
				vc.Lines = append(vc.Lines, line)
			}
			m.Cues = append(m.Cues, vc)
		}
		return vttRenderDoc(m, vttGenRender(r), r), false
	case "ttml":
		m := ttmlGenModel(r, false)
		m.Cues = nil
		m.FrameRate = fw.Pick(r, []int64{0, 24, 24, 24, 25, 30, 50, 60}) // frame rates STL has no disk format code for are the interesting ones
		for _, c := range cues {
			tc := ttmlCue{Attrs: ttmlGenAttrs(r, 3)}
			if r.P(1, 3) {
				// positioning attributes are what the cross-format propagation turns into WebVTT cue settings
				tc.Attrs["origin"] = fw.Pick(r, ttmlAttrValues["origin"])
				if r.Bool() {
					tc.Attrs["extent"] = fw.Pick(r, ttmlAttrValues["extent"])
				}
				if r.Bool() {
					tc.Attrs["textAlign"] = fw.Pick(r, ttmlAttrValues["textAlign"])
				}
			}
			clock := func(ns int64) ttmlTime {
				msv := ns / 1e6
				s := msv / 1000
				return ttmlTime{Expr: fmt.Sprintf("%s:%s:%s.%03d", pad2(s/3600), pad2(s/60%60), pad2(s%60), msv%1000), Val: ratNs(ns, 1), Exact: true}
			}
			// the same instant in any of the time expression forms that can say it exactly
			expr := func(ns int64) ttmlTime {
				msv := ns / 1e6
				t := clock(ns)
				switch r.Intn(6) {
				case 0:
					if m.TickRate > 0 && ns%1e9*m.TickRate%1e9 == 0 && ns > 0 {
						t.Expr = fmt.Sprintf("%dt", ns/1e9*m.TickRate+ns%1e9*m.TickRate/1e9)
					}
				case 1:
					t.Expr = fmt.Sprintf("%d.%03ds", msv/1000, msv%1000)
				case 2:
					t.Expr = fmt.Sprintf("%dms", msv)
				case 3:
					if m.FrameRate > 0 && ns%1e9*m.FrameRate%1e9 == 0 {
						t.Expr = fmt.Sprintf("%df", ns/1e9*m.FrameRate+ns%1e9*m.FrameRate/1e9)
					}
				}
				return t
			}
			tc.Begin, tc.End = expr(c.S), expr(c.E)
			if len(m.Styles) > 0 && r.Bool() {
				tc.Style = m.Styles[r.Intn(len(m.Styles))].ID
			}
			if len(m.Regions) > 0 && r.Bool() {
				tc.Region = m.Regions[r.Intn(len(m.Regions))].ID
			}
			for _, l := range c.Lines {
				var runs []ttmlRun
				for _, p := range splitRuns(r, l, r.Range(1, 3)) {
					run := ttmlRun{Text: p, Attrs: ttmlGenAttrs(r, 3)}
					if len(m.Styles) > 0 && r.P(1, 3) {
						run.Style = m.Styles[r.Intn(len(m.Styles))].ID
					}
					runs = append(runs, run)
				}
				tc.Lines = append(tc.Lines, runs)
			}
			m.Cues = append(m.Cues, tc)
		}
		return ttmlRenderDoc(m, ttmlGenRender(r), r), false
	case "ssa", "ass":
		m := ssaGenModel(r, false)
		m.Events = nil
		for _, c := range cues {
			e := ssaEvent{Start: c.S / 1e7, End: c.E / 1e7, Name: fw.Pick(r, []string{"", "Cher"})}
			if len(m.Styles) > 0 && r.Bool() {
				e.Style = m.Styles[r.Intn(len(m.Styles))].Name
				e.styleRef = e.Style
			}
			for _, l := range c.Lines {
				var toks []ssaTok
				for _, p := range splitRuns(r, l, r.Range(1, 3)) {
					t := ssaTok{Text: p}
					if r.P(1, 3) {
						t.Block = fw.Pick(r, []string{`{\i1}`, `{\b1}`, `{\pos(1,2)}`})
					}
					toks = append(toks, t)
				}
				e.Lines = append(e.Lines, toks)
			}
			m.Events = append(m.Events, e)
		}
		d, _ := ssaRenderDoc(m, ssaGenRender(r, m.V4Plus), r)
		return d, false
	case "stl":
		m := stlModel{G: stlGenGSI(r)}
		if r.P(1, 2) {
			m.G.TCP = [4]int{}
		}
		tcp := stlTCPns(m.G)
		for k, c := range cues {
			tc := func(ns int64) [4]byte {
				ns += tcp
				f := ns % 1e9 * int64(m.G.FPS) / 1e9
				s := ns / 1e9
				return [4]byte{byte(s / 3600), byte(s / 60 % 60), byte(s % 60), byte(f)}
			}
			sc := stlCue{TCI: tc(c.S), TCO: tc(c.E), VP: byte(r.Range(1, 23)), JC: byte(r.Intn(4))}
			for li, l := range c.Lines {
				if li > 0 {
					sc.tf = append(sc.tf, 0x8a)
				}
				if m.G.DSC != "0" {
					sc.tf = append(sc.tf, 0x0b, 0x0b)
				}
				// the choice between a space and a spacing attribute is a function of the line's text: two cues with the
				// same text must stay identical for Unfragment (its text identity is the concatenation of the runs)
				lr := fw.NewRand(fw.HashString(l))
				for wi, w := range strings.Split(l, " ") {
					if wi > 0 {
						if lr.P(1, 3) {
							sc.tf = append(sc.tf, byte(0x80+lr.Intn(4))) // a spacing attribute instead of a space
						} else {
							sc.tf = append(sc.tf, ' ')
						}
					}
					sc.tf = append(sc.tf, stlEncodeASCIILatin(w)...)
				}
				if m.G.DSC != "0" {
					sc.tf = append(sc.tf, 0x0a, 0x0a)
				}
			}
			m.Cues = append(m.Cues, sc)
			m.order = append(m.order, k)
		}
		return stlEncodeDoc(m, r), m.G.DSC == "0"
	case "ts":
		return ttxSimpleStream(r, cues), false
	}
	panic("unknown source " + src)
}

// stlEncodeASCIILatin encodes the few Latin letters of c07WordsLatin with floating diacritics
func stlEncodeASCIILatin(s string) []byte {
	var out []byte
	for _, ch := range s {
		switch ch {
		case 'é':
			out = append(out, 0xc2, 'e')
		case 'Ü':
			out = append(out, 0xc8, 'U')
		case 'ü':
			out = append(out, 0xc8, 'u')
		case 'ñ':
			out = append(out, 0xc4, 'n')
		case 'ï':
			out = append(out, 0xc8, 'i')
		case 'Å':
			out = append(out, 0xca, 'A')
		default:
			out = append(out, byte(ch))
		}
	}
	return out
}

// ttxSimpleStream: one page instance per cue, each in its own PES at the cue's start; a final header-only instance
// at the end of the last cue (cues are contiguous)
func ttxSimpleStream(r *fw.Rand, cues []ncue) []byte {
	w := newTSWriter()
	tpid, pmtPID := uint16(0x200), uint16(0x100)
	mag, page := r.Range(1, 8), r.Intn(100)
	tables := func() {
		w.payloadUnit(0, patSection([][2]uint16{{1, pmtPID}}), true)
		w.payloadUnit(pmtPID, pmtSection(1, 0x1ff0, []pmtStream{{0x06, tpid, teletextDescriptor(0x56, mag, page)}}), true)
	}
	tables()
	tables()
	base := int64(r.Intn(1000)) * 90
	hdr := func(erase bool) []byte {
		return ttxUnit(0x03, 0xe4, mag, 0, ttxHeader(page, ttxHeaderFlags{subtitle: true, serial: true, erase: erase}))
	}
	for _, c := range cues {
		payload := append([]byte{0x10}, hdr(false)...)
		for li, l := range c.Lines {
			var cells [40]byte
			for i := range cells {
				cells[i] = oddParity(' ')
			}
			pos := 2
			cells[0], cells[1] = oddParity(0x0b), oddParity(0x0b)
			for _, ch := range l {
				if pos < 38 {
					cells[pos] = oddParity(byte(ch))
					pos++
				}
			}
			cells[pos] = oddParity(0x0a)
			payload = append(payload, ttxUnit(0x03, 0xe4, mag, 20+li, cells)...)
		}
		w.payloadUnit(tpid, pesPacket(0xbd, base+c.S/1e6*90, true, payload), false)
		if r.P(1, 3) {
			tables()
		}
	}
	last := cues[len(cues)-1]
	w.payloadUnit(tpid, pesPacket(0xbd, base+last.E/1e6*90, true, append([]byte{0x10}, hdr(true)...)), false)
	return w.buf.Bytes()
}

// ---- executable specifications of the operations on neutral cues (composition of the C09-C15 specifications)

type c07Op struct {
	Name string
	D    int64 // sync shift / fragment period
	Lin  [4]int64
}

func (o c07Op) String() string {
	switch o.Name {
	case "sync", "fragment":
		return fmt.Sprintf("%s(%v)", o.Name, time.Duration(o.D))
	case "linear":
		return fmt.Sprintf("linear(a1=%v,d1=%v,a2=%v,d2=%v)", time.Duration(o.Lin[0]), time.Duration(o.Lin[1]), time.Duration(o.Lin[2]), time.Duration(o.Lin[3]))
	}
	return o.Name
}

func stripWS(s string) string {
	return strings.Map(func(r rune) rune {
		if unicode.IsSpace(r) {
			return -1
		}
		return r
	}, s)
}

func c07ApplySpec(cues []ncue, other []ncue, op c07Op) []ncue {
	switch op.Name {
	case "sync":
		var out []ncue
		for _, c := range cues {
			c.S, c.E = c.S+op.D, c.E+op.D
			if c.E <= 0 {
				continue
			}
			if c.S < 0 {
				c.S = 0
			}
			out = append(out, c)
		}
		return out
	case "order":
		out := append([]ncue(nil), cues...)
		sort.SliceStable(out, func(i, j int) bool { return out[i].S < out[j].S })
		return out
	case "fragment":
		var out []ncue
		for _, c := range cues {
			s := c.S
			for b := (c.S/op.D + 1) * op.D; b < c.E; b += op.D {
				out = append(out, ncue{s, b, c.Lines, c.K})
				s = b
			}
			out = append(out, ncue{s, c.E, c.Lines, c.K})
		}
		sort.SliceStable(out, func(i, j int) bool { return out[i].S < out[j].S })
		return out
	case "unfragment":
		out := append([]ncue(nil), cues...)
		sort.SliceStable(out, func(i, j int) bool { return out[i].S < out[j].S })
		for {
			merged := false
		outer:
			for i := 0; i < len(out); i++ {
				for j := i + 1; j < len(out); j++ {
					if out[i].key() == out[j].key() && out[i].E >= out[j].S {
						if out[j].E > out[i].E {
							out[i].E = out[j].E
						}
						out = append(out[:j], out[j+1:]...)
						merged = true
						break outer
					}
				}
			}
			if !merged {
				return out
			}
		}
	case "merge":
		out := append(append([]ncue(nil), cues...), other...)
		sort.SliceStable(out, func(i, j int) bool { return out[i].S < out[j].S })
		return out
	case "optimize":
		return cues
	}
	return cues
}

// linear correction is applied last: every boundary becomes an interval [exact-1us, exact+1us]
func c07Linear(t int64, l [4]int64) (lo, hi int64) {
	x := new(big.Rat).SetFrac(new(big.Int).Mul(big.NewInt(t-l[0]), big.NewInt(l[3]-l[1])), big.NewInt(l[2]-l[0]))
	x.Add(x, new(big.Rat).SetInt64(l[1]))
	f, _ := x.Float64()
	return int64(f) - 1000, int64(f) + 1000
}

func c07Resolution(dst string, fps int64) func(ns int64) int64 {
	switch dst {
	case "ssa", "ass":
		return func(ns int64) int64 { return ns / 1e7 * 1e7 }
	case "stl":
		return func(ns int64) int64 {
			s := ns / 1e9
			f := ns % 1e9 * fps / 1e9
			return s*1e9 + (f*1e9+fps-1)/fps
		}
	}
	return func(ns int64) int64 { return ns / 1e6 * 1e6 }
}

const c07FindingSTL = "C07/stl-destination-text-not-recovered"

func caseMix(r *fw.Rand, ext string) string {
	b := []byte(ext)
	for i := range b {
		if r.Bool() {
			b[i] = byte(unicode.ToUpper(rune(b[i])))
		}
	}
	return string(b)
}

func c07Run(c *fw.Ctx) fw.Outcome {
	r := c.R
	if c.Idx >= tierN(c.Tier, 42*21, 42*2100)+tierN(c.Tier, 30, 3000) {
		return c07CLIErrors(c, int(c.Idx-tierN(c.Tier, 42*21, 42*2100)-tierN(c.Tier, 30, 3000)))
	}
	if c.Idx >= tierN(c.Tier, 42*21, 42*2100) {
		return c07Pages(c)
	}
	pairs := len(c07Sources) * len(c07Dests)
	pi := int(c.Idx) % pairs
	src, dst := c07Sources[pi/len(c07Dests)], c07Dests[pi%len(c07Dests)]
	useCLI := (c.Idx/int64(pairs))%7 == 6 && haveCLI()
	cues := c07GenNeutral(r, src, dst, src == "ts")
	// the document merged in is of the same format, or (every other case) of any other one: a transport stream
	// merged with a styled SSA script, a TTML document with regions merged into an SRT list
	src2 := src
	if r.Bool() {
		src2 = fw.Pick(r, c07Sources)
	}
	other := c07GenNeutral(r, src2, dst, src2 == "ts")
	for _, l := range []struct {
		format string
		cues   []ncue
	}{{src, cues}, {src2, other}} {
		if l.format == "ts" {
			// teletext times are relative to the first presentation time of the stream
			base := l.cues[0].S
			for k := range l.cues {
				l.cues[k].S, l.cues[k].E = l.cues[k].S-base, l.cues[k].E-base
			}
		}
	}
	data, stlOpen := c07RenderSource(r, src, cues)
	otherData, _ := c07RenderSource(r, src2, other)
	dir := c.TmpDir()
	// file names as they come: blanks, commas, brackets, a percent sign, letters beyond ASCII
	in := filepath.Join(dir, fw.Pick(r, []string{"in", "in", "The Good, the Bad [en] 100%", "Épisode 1 (v2)"})+"."+caseMix(r, src))
	in2 := filepath.Join(dir, fw.Pick(r, []string{"in2", "second, [x]"})+"."+caseMix(r, src2))
	out := filepath.Join(dir, fw.Pick(r, []string{"out", "out", "seg_%03d, [final]", "été 50% off"})+"."+caseMix(r, dst))
	os.WriteFile(in, data, 0o644)
	os.WriteFile(in2, otherData, 0o644)
	out = outPath(r, "", out) // a fresh destination, or one that holds an earlier, much longer file
	// the same words may come back from two source formats with different white space between their runs (which the
	// statement disregards): whether two cues "have the same text" for Unfragment is decided on the texts as read
	for _, l := range []struct {
		path string
		cs   []ncue
	}{{in, cues}, {in2, other}} {
		var sub *astisub.Subtitles
		var err error
		if p := guard(func() { sub, err = astisub.OpenFile(l.path) }); p == "" && err == nil && sub != nil && len(sub.Items) == len(l.cs) {
			for k := range l.cs {
				l.cs[k].K = sub.Items[k].String()
			}
		}
	}
	// operation sequence
	var ops []c07Op
	nops := r.Intn(5)
	if useCLI {
		nops = 1 // one sub-command per CLI round; a plain convert every fourth time
		if r.P(1, 4) {
			nops = 0
		}
	}
	names := []string{"sync", "fragment", "unfragment", "merge", "optimize", "order", "linear"}
	for k := 0; k < nops; k++ {
		op := c07Op{Name: fw.Pick(r, names)}
		switch op.Name {
		case "sync":
			op.D = int64(r.Intn(200)-80) * 200e6
			if op.D == 0 {
				op.D = 200e6
			}
		case "fragment":
			op.D = int64(r.Range(1, 30)) * 200e6
		case "linear":
			if k != nops-1 {
				op.Name = "order"
				break
			}
			a1 := int64(r.Range(1, 100)) * 1e9
			a2 := a1 + int64(r.Range(10, 3000))*1e9
			sl := fw.Pick(r, c15Slopes)
			d1 := mulDiv(a1, sl[0], sl[1]) + int64(r.Range(1, 5))*1e9 // instant 0 maps to a positive instant
			op.Lin = [4]int64{a1, d1, a2, d1 + mulDiv(a2-a1, sl[0], sl[1])}
		}
		ops = append(ops, op)
	}
	key := fw.Mix(fw.HashBytes(data), fw.HashString(dst), uint64(len(ops)), uint64(c.Idx))
	desc := fmt.Sprintf("%s -> %s via %s, ops %v", src, dst, map[bool]string{false: "library", true: "CLI"}[useCLI], ops)
	// expected
	type ival struct{ lo, hi int64 }
	exp := append([]ncue(nil), cues...)
	linear := false
	var lin [4]int64
	for _, op := range ops {
		if op.Name == "linear" {
			linear, lin = true, op.Lin
			continue
		}
		if op.Name == "fragment" {
			exp = c07ApplySpec(exp, nil, c07Op{Name: "order"}) // precondition of Fragment
		}
		exp = c07ApplySpec(exp, other, op)
	}
	// run
	var got *astisub.Subtitles
	var runErr error
	if useCLI {
		args := []string{"convert", "-i", in, "-o", out}
		if len(ops) == 1 {
			switch ops[0].Name {
			case "sync":
				args = []string{"sync", "-i", in, "-s", time.Duration(ops[0].D).String(), "-o", out}
			case "fragment":
				args = []string{"fragment", "-i", in, "-f", time.Duration(ops[0].D).String(), "-o", out}
			case "unfragment":
				args = []string{"unfragment", "-i", in, "-o", out}
			case "merge":
				args = []string{"merge", "-i", in, "-i", in2, "-o", out}
			case "optimize":
				args = []string{"optimize", "-i", in, "-o", out}
			case "order":
				args = []string{"convert", "-i", in, "-o", out}
				exp = append([]ncue(nil), cues...)
			case "linear":
				l := ops[0].Lin
				args = []string{"apply-linear-correction", "-i", in, "-a1", time.Duration(l[0]).String(), "-d1", time.Duration(l[1]).String(), "-a2", time.Duration(l[2]).String(), "-d2", time.Duration(l[3]).String(), "-o", out}
			}
		}
		msg, err := cli(args...)
		if err != nil {
			runErr = fmt.Errorf("%v: %s", err, strings.TrimSpace(msg))
		}
		c.Count("cli_conversions", 1)
	} else {
		var sub, sub2 *astisub.Subtitles
		p := guard(func() {
			if sub, runErr = astisub.OpenFile(in); runErr != nil {
				return
			}
			for _, op := range ops {
				switch op.Name {
				case "sync":
					sub.Add(time.Duration(op.D))
				case "fragment":
					sub.Order()
					sub.Fragment(time.Duration(op.D))
				case "unfragment":
					sub.Unfragment()
				case "merge":
					if sub2, runErr = astisub.OpenFile(in2); runErr != nil {
						return
					}
					sub.Merge(sub2)
				case "optimize":
					sub.Optimize()
				case "order":
					sub.Order()
				case "linear":
					sub.ApplyLinearCorrection(time.Duration(op.Lin[0]), time.Duration(op.Lin[1]), time.Duration(op.Lin[2]), time.Duration(op.Lin[3]))
				}
			}
			runErr = sub.Write(out)
		})
		if p != "" {
			return fw.Bad(key, fmt.Sprintf("%x", data), "%s: panic: %s", desc, p)
		}
		c.Count("library_conversions", 1)
	}
	if len(exp) == 0 {
		// nothing left to write
		if runErr == nil {
			return fw.Bad(key, fmt.Sprintf("%x", data), "%s: every cue was removed but the conversion succeeded (expected the nothing-to-write error)", desc)
		}
		if !useCLI && runErr != astisub.ErrNoSubtitlesToWrite {
			return fw.Bad(key, fmt.Sprintf("%x", data), "%s: every cue was removed; error is %v instead of the nothing-to-write error", desc, runErr)
		}
		c.Count("nothing_to_write_cases", 1)
		return fw.OK(key, desc+" => nothing to write")
	}
	if runErr != nil {
		return fw.Bad(key, fmt.Sprintf("%x", data), "%s: the conversion failed: %v", desc, runErr)
	}
	var rerr error
	if p := guard(func() { got, rerr = astisub.OpenFile(out) }); p != "" || rerr != nil {
		return fw.Bad(key, fmt.Sprintf("%x", data), "%s: the destination cannot be read back: %v %s", desc, rerr, p)
	}
	// frame rate of an STL destination: the source's when it is 25 or 30, else the writer's default
	fps := int64(25)
	if got.Metadata != nil && dst == "stl" && got.Metadata.Framerate > 0 {
		fps = int64(got.Metadata.Framerate)
	}
	res := c07Resolution(dst, fps)
	if len(got.Items) != len(exp) {
		return fw.Bad(key, fmt.Sprintf("%x", data), "%s: %d cues in the destination, %d expected (%s)", desc, len(got.Items), len(exp), fmtNeutral(exp))
	}
	textLost := 0
	for k, e := range exp {
		it := got.Items[k]
		for j, p := range [][2]int64{{e.S, int64(it.StartAt)}, {e.E, int64(it.EndAt)}} {
			lo, hi := p[0], p[0]
			if linear {
				lo, hi = c07Linear(p[0], lin)
			}
			if lo < 0 {
				continue // negative instants are outside the property
			}
			lo, hi = res(lo), res(hi)
			tol := int64(0)
			if dst == "stl" {
				tol = 1
			}
			if p[1] < lo-tol || p[1] > hi+tol {
				return fw.Bad(key, fmt.Sprintf("%x", data), "%s: cue %d %s is %v in the destination, expected %v (source instant %v truncated to the destination's resolution)", desc, k, []string{"start", "end"}[j], time.Duration(p[1]), time.Duration(lo), time.Duration(p[0]))
			}
		}
		var gl []string
		for _, l := range it.Lines {
			var t string
			for _, li := range l.Items {
				t += li.Text
			}
			if s := stripWS(t); s != "" {
				gl = append(gl, s)
			}
		}
		var el []string
		for _, l := range e.Lines {
			el = append(el, stripWS(l))
		}
		if strings.Join(gl, "\n") != strings.Join(el, "\n") {
			if len(gl) == 0 && dst == "stl" && !(src == "stl" && stlOpen) && c.IsKnown(c07FindingSTL) {
				textLost++
				continue
			}
			return fw.Bad(key, fmt.Sprintf("%x", data), "%s: cue %d text is %q in the destination, expected %q", desc, k, strings.Join(gl, "|"), strings.Join(el, "|"))
		}
	}
	c.Feature(fmt.Sprintf("%s->%s cli=%v ops=%d", src, dst, useCLI, len(ops)))
	for _, op := range ops {
		c.Count("op_"+op.Name, 1)
	}
	if textLost > 0 {
		withText := 0
		for _, e := range exp {
			if stripWS(e.text()) != "" {
				withText++
			}
		}
		if textLost != withText {
			return fw.Bad(key, fmt.Sprintf("%x", data), "%s: some but not all cue texts were lost in the STL destination", desc)
		}
		return fw.Outcome{Status: fw.Known, Key: key, Finding: c07FindingSTL, Detail: desc}
	}
	return fw.OK(key, map[string]interface{}{"conversion": desc, "cues": fmtNeutral(cues)})
}

// ttxTwoPageStream interleaves the instances of two subtitle pages (page A is transmitted first); every cue list is
// contiguous and both end with a header-only instance. Times are relative to the first presentation time.
func ttxTwoPageStream(r *fw.Rand, a, b []ncue) (data []byte, pageA, pageB int) {
	w := newTSWriter()
	tpid, pmtPID := uint16(0x200), uint16(0x100)
	magA, pA := r.Range(1, 8), r.Intn(100)
	magB, pB := r.Range(1, 8), r.Intn(100)
	for magB == magA && pB == pA {
		pB = r.Intn(100)
	}
	tables := func() {
		w.payloadUnit(0, patSection([][2]uint16{{1, pmtPID}}), true)
		w.payloadUnit(pmtPID, pmtSection(1, 0x1ff0, []pmtStream{{0x06, tpid, teletextDescriptor(0x56, magA, pA)}}), true)
	}
	tables()
	tables()
	type ev struct {
		t     int64
		mag   int
		page  int
		lines []string
		erase bool
	}
	var evs []ev
	for _, l := range []struct {
		cues      []ncue
		mag, page int
	}{{a, magA, pA}, {b, magB, pB}} {
		for _, c := range l.cues {
			evs = append(evs, ev{t: c.S, mag: l.mag, page: l.page, lines: c.Lines})
		}
		evs = append(evs, ev{t: l.cues[len(l.cues)-1].E, mag: l.mag, page: l.page, erase: true})
	}
	sort.SliceStable(evs, func(i, j int) bool { return evs[i].t < evs[j].t })
	for _, e := range evs {
		payload := append([]byte{0x10}, ttxUnit(0x03, 0xe4, e.mag, 0, ttxHeader(e.page, ttxHeaderFlags{subtitle: true, serial: true, erase: e.erase}))...)
		for li, l := range e.lines {
			var cells [40]byte
			for i := range cells {
				cells[i] = oddParity(' ')
			}
			cells[0], cells[1] = oddParity(0x0b), oddParity(0x0b)
			pos := 2
			for _, ch := range l {
				if pos < 38 {
					cells[pos] = oddParity(byte(ch))
					pos++
				}
			}
			cells[pos] = oddParity(0x0a)
			payload = append(payload, ttxUnit(0x03, 0xe4, e.mag, 20+li, cells)...)
		}
		w.payloadUnit(tpid, pesPacket(0xbd, 900+e.t/1e6*90, true, payload), false)
	}
	return w.buf.Bytes(), magA*100 + pA, magB*100 + pB
}

// c07SubCommands: every sub-command of the CLI with the arguments of a successful run (%in, %in2 and %out stand for paths)
var c07SubCommands = [][]string{
	{"convert", "-i", "%in", "-o", "%out"},
	{"sync", "-i", "%in", "-s", "1s", "-o", "%out"},
	{"fragment", "-i", "%in", "-f", "2s", "-o", "%out"},
	{"unfragment", "-i", "%in", "-o", "%out"},
	{"merge", "-i", "%in", "-i", "%in2", "-o", "%out"},
	{"optimize", "-i", "%in", "-o", "%out"},
	{"apply-linear-correction", "-i", "%in", "-a1", "1s", "-d1", "2s", "-a2", "5s", "-d2", "7s", "-o", "%out"},
}

// c07CLIErrors: with every sub-command, an unsupported output extension, an input without any cue, a missing input
// and an unsupported input extension end with a non-zero exit status, and the good run next to them with zero
func c07CLIErrors(c *fw.Ctx, k int) fw.Outcome {
	if !haveCLI() || k >= len(c07SubCommands) {
		return fw.Skip()
	}
	dir := c.TmpDir()
	good, good2, empty := filepath.Join(dir, "e-in.srt"), filepath.Join(dir, "e-in2.srt"), filepath.Join(dir, "e-empty.vtt")
	os.WriteFile(good, []byte(simpleSRT([]tcue{{1e9, 2e9, "a"}, {3e9, 4e9, "b"}})), 0o644)
	os.WriteFile(good2, []byte(simpleSRT([]tcue{{5e9, 6e9, "c"}})), 0o644)
	os.WriteFile(empty, []byte("WEBVTT\n\n"), 0o644)
	os.WriteFile(filepath.Join(dir, "e-in.xyz"), []byte("x"), 0o644)
	name := c07SubCommands[k][0]
	key := fw.Mix(fw.HashString(name), 0xc07e)
	run := func(in, in2, out string) (string, error) {
		var args []string
		for _, a := range c07SubCommands[k] {
			switch a {
			case "%in":
				a = in
			case "%in2":
				a = in2
			case "%out":
				a = out
			}
			args = append(args, a)
		}
		os.Remove(out)
		return cli(args...)
	}
	if msg, err := run(good, good2, filepath.Join(dir, "e-out.vtt")); err != nil {
		return fw.Bad(key, nil, "CLI %s on a good file failed: %v %s", name, err, msg)
	}
	for _, bad := range []struct{ what, in, in2, out string }{
		{"an unsupported output extension", good, good2, filepath.Join(dir, "e-out.xyz")},
		{"an input that holds no cue (nothing to write)", empty, empty, filepath.Join(dir, "e-out.srt")},
		{"a missing input file", filepath.Join(dir, "e-missing.srt"), good2, filepath.Join(dir, "e-out.srt")},
		{"an unsupported input extension", filepath.Join(dir, "e-in.xyz"), good2, filepath.Join(dir, "e-out.srt")},
	} {
		if msg, err := run(bad.in, bad.in2, bad.out); err == nil {
			return fw.Bad(key, nil, "CLI %s with %s exits with status 0 (%s)", name, bad.what, trunc(msg, 200))
		}
		c.Count("cli_error_exits_checked", 1)
	}
	c.Feature("cli errors " + name)
	return fw.OK(key, "cli errors: "+name)
}

// c07Pages: the teletext page option through the library (Options.Teletext.Page) and the CLI (-p), for convert and merge
func c07Pages(c *fw.Ctx) fw.Outcome {
	r := c.R
	a := c07GenNeutral(r, "ts", "srt", true)
	b := c07GenNeutral(r, "ts", "srt", true)
	// page A starts first: times are relative to its first instance
	base := a[0].S
	if b[0].S <= base {
		d := base - b[0].S + 200e6
		for k := range b {
			b[k].S, b[k].E = b[k].S+d, b[k].E+d
		}
	}
	for _, l := range [][]ncue{a, b} {
		for k := range l {
			l[k].S, l[k].E = l[k].S-base, l[k].E-base
		}
	}
	// no two instances at the same instant
	used := map[int64]bool{}
	for _, l := range [][]ncue{a, b} {
		for _, cu := range l {
			if used[cu.S] {
				return fw.Skip()
			}
			used[cu.S] = true
		}
	}
	if used[a[len(a)-1].E] || used[b[len(b)-1].E] || a[len(a)-1].E == b[len(b)-1].E {
		return fw.Skip()
	}
	data, pageA, pageB := ttxTwoPageStream(r, a, b)
	dir := c.TmpDir()
	in := filepath.Join(dir, "two.ts")
	out := filepath.Join(dir, "pages."+fw.Pick(r, []string{"srt", "vtt", "ttml"}))
	os.WriteFile(in, data, 0o644)
	inCopy := filepath.Join(dir, "two-copy.ts") // (the CLI's -i flag drops a repeated value)
	os.WriteFile(inCopy, data, 0o644)
	os.Remove(out)
	key := fw.Mix(fw.HashBytes(data), 0x9a9e)
	same := func(exp []ncue, got *astisub.Subtitles, what string) *fw.Outcome {
		if len(got.Items) != len(exp) {
			o := fw.Bad(key, fmt.Sprintf("%x", data), "%s: %d cues, the selected page transmitted %d (%s)", what, len(got.Items), len(exp), fmtNeutral(exp))
			return &o
		}
		for k, e := range exp {
			it := got.Items[k]
			var t []string
			for _, l := range it.Lines {
				var s string
				for _, li := range l.Items {
					s += li.Text
				}
				t = append(t, stripWS(s))
			}
			var el []string
			for _, l := range e.Lines {
				el = append(el, stripWS(l))
			}
			if int64(it.StartAt)/1e6 != e.S/1e6 || int64(it.EndAt)/1e6 != e.E/1e6 || strings.Join(t, "|") != strings.Join(el, "|") {
				o := fw.Bad(key, fmt.Sprintf("%x", data), "%s: cue %d is [%v,%v) %q, the selected page transmitted [%v,%v) %q", what, k, it.StartAt, it.EndAt, strings.Join(t, "|"), time.Duration(e.S), time.Duration(e.E), strings.Join(el, "|"))
				return &o
			}
		}
		return nil
	}
	for _, sel := range []struct {
		page int
		exp  []ncue
	}{{0, a}, {pageA, a}, {pageB, b}} {
		var got *astisub.Subtitles
		var err error
		if p := guard(func() {
			got, err = astisub.Open(astisub.Options{Filename: in, Teletext: astisub.TeletextOptions{Page: sel.page}})
		}); p != "" || err != nil {
			return fw.Bad(key, fmt.Sprintf("%x", data), "Open with teletext page %d failed: %v %s", sel.page, err, p)
		}
		if o := same(sel.exp, got, fmt.Sprintf("Open with teletext page %d (pages %d then %d in the stream)", sel.page, pageA, pageB)); o != nil {
			return *o
		}
		if !haveCLI() {
			continue
		}
		os.Remove(out)
		args := []string{"convert", "-i", in, "-o", out}
		if sel.page != 0 {
			args = append(args, "-p", fmt.Sprint(sel.page))
		}
		if msg, err := cli(args...); err != nil {
			return fw.Bad(key, fmt.Sprintf("%x", data), "CLI %v failed: %v %s", args, err, msg)
		}
		if got, err = astisub.OpenFile(out); err != nil {
			return fw.Bad(key, fmt.Sprintf("%x", data), "CLI %v: output unreadable: %v", args, err)
		}
		if o := same(sel.exp, got, fmt.Sprintf("CLI convert -p %d", sel.page)); o != nil {
			return *o
		}
		// merge: both inputs are read with the selected page
		os.Remove(out)
		args = []string{"merge", "-i", in, "-i", inCopy, "-o", out}
		if sel.page != 0 {
			args = append(args, "-p", fmt.Sprint(sel.page))
		}
		if msg, err := cli(args...); err != nil {
			return fw.Bad(key, fmt.Sprintf("%x", data), "CLI %v failed: %v %s", args, err, msg)
		}
		if got, err = astisub.OpenFile(out); err != nil {
			return fw.Bad(key, fmt.Sprintf("%x", data), "CLI %v: output unreadable: %v", args, err)
		}
		twice := c07ApplySpec(sel.exp, sel.exp, c07Op{Name: "merge"})
		if o := same(twice, got, fmt.Sprintf("CLI merge of the stream with itself, -p %d", sel.page)); o != nil {
			return *o
		}
		c.Count("cli_page_option_runs", 2)
	}
	c.Feature("teletext page option")
	return fw.OK(key, map[string]interface{}{"kind": "two subtitle pages in one stream", "pages": []int{pageA, pageB}, "page_a": fmtNeutral(a), "page_b": fmtNeutral(b)})
}

func fmtNeutral(cs []ncue) string {
	var s []string
	for _, c := range cs {
		s = append(s, fmt.Sprintf("[%v,%v)%q", time.Duration(c.S), time.Duration(c.E), c.text()))
	}
	return strings.Join(s, " ")
}

func init() {
	fw.Register(&fw.Property{
		ID:          "C07",
		Level:       "exploration",
		Rule:        "case = (source format, destination format) cycling over all 7 x 6 pairs; a random start-ordered neutral cue list (1..6 cues on a 200 ms grid so that every format can express it exactly, overlaps, abutting cues, repeated texts, 1..2 lines) is rendered into a styled, metadata-bearing source document by the C01-C06 renderers (SRT runs with markup, WebVTT with regions/settings/voices/tags, TTML with styles/regions/attributes, SSA with styles/override blocks, STL at 25/30 fps with any display standard and programme-start offset, teletext TS with one page instance per cue), written to a file whose extension has random letter case, then converted through OpenFile + 0..4 operations (sync, fragment, unfragment, merge with a second document, optimize, order, linear correction last) + Write, or (every 7th round) through the CLI binary built from /repo (convert, sync, fragment, unfragment, merge, optimize, apply-linear-correction). Oracle: the composed executable specifications of C09-C15 applied to the neutral list, truncated to the destination's resolution (ms; cs for ssa/ass; frame for stl, +-1 ns), compared with the destination re-read through OpenFile: count, order, start, end, and text per line with all white space removed; an empty result must give the nothing-to-write error. The last 12 (120) cases put two subtitle pages in one stream and select each through Options.Teletext.Page and through the CLI's -p flag (convert, merge). distinct_nontrivial = distinct (document, destination, operations) cases.",
		Assumptions: []string{"times are non-negative (negative results of a linear correction are not compared); texts are drawn from an alphabet every format involved can represent (ASCII words; a few Latin letters when teletext is not involved; no '$')", "linear correction is only used as the last operation (its 1 us tolerance would make the outcome of a later fragment ambiguous)"},
		Cases: func(tier string) int64 {
			return tierN(tier, 42*21, 42*2100) + tierN(tier, 30, 3000) + int64(len(c07SubCommands))
		},
		Anchors: []string{"Open", "OpenFile", "Subtitles.Write", "astisub/main.go", "all readers and writers"},
		Run:     c07Run,
	})
}
