package props

import (
	"fmt"
	"sort"
	"sync"
	"time"

	astisub "github.com/asticode/go-astisub"
	"verif/harness/fw"
)

// C10 Fragment: per-cue cutting specification, exhaustive grids as the quantifier states + random + CLI.

// c10Grid enumerates every start-ordered list of 1..maxCues cues with s<=e on 0..maxT and two texts
func c10Grid(maxCues int, maxT int64) [][]tcue {
	var cues []tcue
	for s := int64(0); s <= maxT; s++ {
		for e := s; e <= maxT; e++ {
			cues = append(cues, tcue{s, e, "a"}, tcue{s, e, "b"})
		}
	}
	var out [][]tcue
	var rec func(prefix []tcue)
	rec = func(prefix []tcue) {
		if len(prefix) > 0 {
			out = append(out, append([]tcue(nil), prefix...))
		}
		if len(prefix) == maxCues {
			return
		}
		for _, c := range cues {
			if len(prefix) > 0 && c.S < prefix[len(prefix)-1].S {
				continue
			}
			rec(append(prefix, c))
		}
	}
	rec(nil)
	return out
}

var c10GridCache = map[string][][]tcue{}
var c10Mu sync.Mutex

func c10Lists(tier string) [][]tcue {
	c10Mu.Lock()
	defer c10Mu.Unlock()
	if g, ok := c10GridCache[tier]; ok {
		return g
	}
	var g [][]tcue
	if tier == "thorough" {
		g = append(c10Grid(3, 9), c10Grid(4, 6)...)
	} else {
		g = append(c10Grid(3, 6), c10Grid(2, 9)...)
	}
	c10GridCache[tier] = g
	return g
}

// c10Spec cuts every cue at the multiples of f strictly inside it
func c10Spec(cs []tcue, f int64) (out []tcue) {
	for _, c := range cs {
		s := c.S
		b := c.S / f * f
		for b <= c.S {
			b += f
		}
		for ; b < c.E; b += f {
			out = append(out, tcue{s, b, c.T})
			s = b
		}
		out = append(out, tcue{s, c.E, c.T})
	}
	return
}

func sortCues(cs []tcue) {
	sort.Slice(cs, func(i, j int) bool {
		if cs[i].S != cs[j].S {
			return cs[i].S < cs[j].S
		}
		if cs[i].E != cs[j].E {
			return cs[i].E < cs[j].E
		}
		return cs[i].T < cs[j].T
	})
}

func astikitBoolPtr(b bool) *bool { return &b }

func c10Check(cs []tcue, f int64, spare int, styled bool) string {
	sub := astisub.NewSubtitles()
	sub.Items = make([]*astisub.Item, 0, len(cs)+spare)
	st := &astisub.Style{ID: "st", InlineStyle: &astisub.StyleAttributes{}}
	rg := &astisub.Region{ID: "rg", InlineStyle: &astisub.StyleAttributes{}}
	content := map[string]string{} // text -> snapshot (texts are unique per cue when styled, see below)
	for k, c := range cs {
		t := c.T
		if styled {
			t = fmt.Sprintf("%s#%d", c.T, k)
			if k%3 == 2 {
				t = fmt.Sprintf("%s Caf\xe9#%d", c.T, k) // a script saved in a one-byte code page: the bytes are the text
			}
		}
		it := textItem(time.Duration(c.S), time.Duration(c.E), t)
		if styled {
			decorate(it, k)
		}
		if styled && k%2 == 1 {
			it.Style, it.Region, it.InlineStyle = st, rg, fullStyle(k)
			it.Lines[0].VoiceName = "v"
			it.Comments = []string{"c"}
		}
		sub.Items = append(sub.Items, it)
		content[t] = snapItem(it)
	}
	in := cuesOf(sub.Items)
	someMetadata(sub, len(cs)+int(f%7))
	if styled && len(cs)%2 == 0 {
		// the list has been merged into another one that knew the same identifiers under other settings (the receiver's
		// definitions won in the tables): the cues still refer to their own definitions
		if sub.Styles == nil {
			sub.Styles = map[string]*astisub.Style{}
		}
		if sub.Regions == nil {
			sub.Regions = map[string]*astisub.Region{}
		}
		sub.Styles["st"] = &astisub.Style{ID: "st", InlineStyle: &astisub.StyleAttributes{WebVTTAlign: "left", SSABold: astikitBoolPtr(true)}}
		sub.Regions["rg"] = &astisub.Region{ID: "rg", InlineStyle: &astisub.StyleAttributes{WebVTTWidth: "11%", WebVTTLines: 7}}
	}
	if spare == 8 && len(cs)%2 == 1 {
		// the list has been ordered and fragmented before and was re-timed in place since
		if p := guard(func() { prewarm(sub) }); p != "" {
			return p
		}
	}
	if p := guard(func() { sub.Fragment(time.Duration(f)) }); p != "" {
		return p
	}
	got := cuesOf(sub.Items)
	// ordered by start
	for k := 1; k < len(got); k++ {
		if got[k].S < got[k-1].S {
			return fmt.Sprintf("Fragment(%d) on %s: result not ordered by start: %s", f, fmtCues(in), fmtCues(got))
		}
	}
	// no cue strictly contains a multiple of f
	for _, g := range got {
		m := g.S / f * f // the first multiple of f above the start (Go's division truncates towards zero)
		for m <= g.S {
			m += f
		}
		if m < g.E {
			return fmt.Sprintf("Fragment(%d) on %s: cue %s still strictly contains the multiple %d: %s", f, fmtCues(in), g, m, fmtCues(got))
		}
	}
	// timeline unchanged: multiset equality with per-cue cutting
	exp := c10Spec(in, f)
	g2 := append([]tcue(nil), got...)
	sortCues(exp)
	sortCues(g2)
	if fmtCues(exp) != fmtCues(g2) {
		return fmt.Sprintf("Fragment(%d) on %s (spare capacity %d): got %s, per-cue cutting gives %s", f, fmtCues(in), spare, fmtCues(got), fmtCues(exp))
	}
	// each piece carries the original's content
	for _, it := range sub.Items {
		if s, ok := content[itemText(it)]; !ok || (styled && snapItem(it) != s) {
			return fmt.Sprintf("Fragment(%d) on %s: piece [%d,%d) %q does not carry the content of its original cue", f, fmtCues(in), it.StartAt, it.EndAt, itemText(it))
		}
	}
	// pieces are distinct objects (no aliasing between cues of the result)
	seen := map[*astisub.Item]bool{}
	for _, it := range sub.Items {
		if seen[it] {
			return fmt.Sprintf("Fragment(%d) on %s: the same cue object appears twice in the result", f, fmtCues(in))
		}
		seen[it] = true
	}
	// a second pass with the same period after the pieces have been moved (a sync in between): what was cut before
	// says nothing about where the multiples of f lie now
	if len(got) > 0 && len(got) <= 200 {
		d := f/2 + 1
		moved := make([]tcue, len(got))
		for k, g := range got {
			moved[k] = tcue{g.S + d, g.E + d, g.T}
		}
		if moved[0].S >= 0 {
			if p := guard(func() { sub.Add(time.Duration(d)); sub.Fragment(time.Duration(f)) }); p != "" {
				return p
			}
			exp2, got2 := c10Spec(moved, f), cuesOf(sub.Items)
			sortCues(exp2)
			sortCues(got2)
			if fmtCues(exp2) != fmtCues(got2) {
				return fmt.Sprintf("Fragment(%d), Add(%d), Fragment(%d) on %s: got %s, per-cue cutting of the moved pieces gives %s", f, d, f, fmtCues(in), fmtCues(got2), fmtCues(exp2))
			}
		}
	}
	return ""
}

// c10Banner is a short list with one cue that spans thousands of periods (a banner shown for an hour, cut every
// other second): the number of pieces per cue is the quantity that matters, not the number of cues
func c10Banner(r *fw.Rand) ([]tcue, int64) {
	f := fw.Pick(r, []int64{1, 1000000, 40000000, 1000000000, 2000000000}) * int64(r.Range(1, 3))
	k := fw.Pick(r, []int64{255, 256, 511, 512, 999, 1000, 1023, 1024, 1025, 2047, 2048, 4095, 4096, 9999, 10000, 16384, 32768, 65535, 65536}) + int64(r.Intn(4)) - 1
	if r.P(1, 4) {
		k = int64(r.Range(200, 70000))
	}
	s := r.I64n(3*f + 1)
	cs := []tcue{{s, s + k*f + r.I64n(f+1), "banner"}}
	for n := r.Intn(4); n > 0; n-- {
		t := cs[len(cs)-1].S + r.I64n(5*f+1)
		cs = append(cs, tcue{t, t + r.I64n(7*f+1), fw.Pick(r, []string{"a", "b"})})
	}
	return cs, f
}

func c10Random(r *fw.Rand) ([]tcue, int64) {
	if r.P(1, 40) {
		return c10Banner(r)
	}
	n := r.Range(5, 60)
	unit := fw.Pick(r, []int64{1, 1000000, 1000000, 1000000000})
	cs := make([]tcue, 0, n)
	var t int64
	var maxEnd int64 = 1
	for i := 0; i < n; i++ {
		switch r.Intn(5) {
		case 0: // same start (duplicate / nested)
		case 1:
			t += r.I64n(3) * unit
		default:
			t += r.I64n(4000) * unit
		}
		e := t + r.I64n(9000)*unit
		if r.P(1, 8) {
			e = t
		}
		if r.P(1, 6) {
			e = t + r.I64n(60000)*unit // long cue: later cues nest inside it
		}
		cs = append(cs, tcue{t, e, fw.Pick(r, []string{"a", "b"})})
		if e > maxEnd {
			maxEnd = e
		}
	}
	var f int64
	switch r.Intn(5) {
	case 0:
		f = unit * int64(r.Range(1, 10))
	case 1:
		f = maxEnd + r.I64n(1000) + 1 // beyond the timeline
	case 2:
		f = r.I64n(maxEnd) + 1
	default:
		f = unit * int64(r.Range(1, 20)) * fw.Pick(r, []int64{1, 100, 1000})
	}
	if r.P(1, 5) {
		// the list starts before zero (e.g. after a negative sync): multiples of f below zero cut as well
		off := (maxEnd/3/unit + 1) * unit
		for i := range cs {
			cs[i].S, cs[i].E = cs[i].S-off, cs[i].E-off
		}
	}
	// keep the number of pieces bounded (the specification and the sort are linear in it)
	for maxEnd/f > 400 {
		f *= 7
	}
	return cs, f
}

func c10CLI(c *fw.Ctx) fw.Outcome {
	r := c.R
	n := r.Range(1, 6)
	cs := make([]tcue, n)
	var t int64
	for i := range cs {
		if !r.P(1, 4) {
			t += int64(r.Intn(3000))
		}
		cs[i] = tcue{t * 1e6, (t + int64(r.Range(1, 7000))) * 1e6, fmt.Sprintf("text %s", fw.Pick(r, []string{"a", "b"}))}
	}
	f := int64(r.Range(1, 40)) * 100 * 1e6
	switch r.Intn(4) {
	case 0:
		// a list of the exhaustive grid (seconds), f from 1 s to beyond every end
		g := c10Lists("quick")
		cs = append([]tcue(nil), g[r.Intn(len(g))]...)
		for i := range cs {
			cs[i].S, cs[i].E, cs[i].T = cs[i].S*1e9, cs[i].E*1e9, "text "+cs[i].T
		}
		f = int64(r.Range(1, 12)) * 1e9
	case 1:
		// the period lies between the end of the cue that starts last and the latest end, or beyond both
		var last, latest int64
		for _, x := range cs {
			last = x.E
			if x.E > latest {
				latest = x.E
			}
		}
		f = fw.Pick(r, []int64{last, last + 1e6, (last + latest) / 2 / 1e6 * 1e6, latest - 1e6, latest, latest + 1e6})
		if f <= 0 {
			f = 1e6
		}
	}
	if len(cs) == 0 {
		cs = []tcue{{0, 1e9, "text a"}}
	}
	if r.P(1, 3) {
		f += r.I64n(1e6) // a period that is not a whole number of milliseconds: the file then holds the cuts truncated
	}
	in, out, unit, formats := cliFiles(c, r, cs)
	key := hashCues(cs, uint64(f), 0xc10)
	msg, err := cli("fragment", "-i", in, "-f", time.Duration(f).String(), "-o", out)
	if err != nil {
		return fw.Bad(key, nil, "CLI fragment -f %v on %s failed: %v %s", time.Duration(f), fmtCues(cs), err, msg)
	}
	got, err := astisub.OpenFile(out)
	if err != nil {
		return fw.Bad(key, nil, "CLI fragment output unreadable: %v", err)
	}
	exp := c10Spec(cs, f)
	for k := range exp {
		exp[k].S, exp[k].E = exp[k].S/unit*unit, exp[k].E/unit*unit // the output format holds milliseconds or centiseconds
	}
	g := cuesOf(got.Items)
	for k := 1; k < len(g); k++ {
		if g[k].S < g[k-1].S {
			return fw.Bad(key, nil, "CLI fragment -f %v on %s: output not ordered: %s", time.Duration(f), fmtCues(cs), fmtCues(g))
		}
	}
	sortCues(exp)
	sortCues(g)
	if fmtCues(exp) != fmtCues(g) {
		return fw.Bad(key, nil, "CLI fragment -f %v (%s) on %s: got %s, specification %s", time.Duration(f), formats, fmtCues(cs), fmtCues(g), fmtCues(exp))
	}
	c.Count("cli_fragment_runs", 1)
	return fw.OK(key, map[string]interface{}{"cli": "fragment", "f": f, "cues": fmtCues(cs)})
}

func init() {
	randomN := func(tier string) int64 { return tierN(tier, 50000, 2000000) }
	cliN := func(tier string) int64 { return tierN(tier, 320, 3200) }
	fw.Register(&fw.Property{
		ID:    "C10",
		Level: "exploration",
		Rule: "case = one start-ordered cue list x periods, checked against per-cue cutting (multiset of pieces, ordered by start, no cue strictly contains a multiple of f, each piece carries its original's content, distinct objects), with exact and spare slice capacity. " +
			"Grid (exhaustive): quick = lists of <=3 cues on 0..6 and <=2 cues on 0..9, thorough = <=3 cues on 0..9 and <=4 cues on 0..6; two texts, zero-length cues, overlaps, nesting, duplicates; f in 1..5. Random: 5..60 cues at ns/ms/s granularity, f from one unit to beyond the timeline. CLI: 'astisub fragment' on SRT files. " +
			"One random case in 40 is a banner: a cue spanning 255..70 000 periods next to 0..3 short cues. CLI cases: a quarter are lists of the exhaustive grid with f from 1 s to beyond every end, a quarter have f between the end of the cue that starts last and the latest end. Lists carry metadata of every source format and some have a past (see C09). One random case in 40 is a banner: a cue spanning 255..70 000 periods next to 0..3 short cues. CLI cases: a quarter are lists of the exhaustive grid with f from 1 s to beyond every end, a quarter have f between the end of the cue that starts last and the latest end. Lists carry metadata of every source format and some have a past (see C09). distinct_nontrivial = distinct (list, period set) inputs compared.",
		Assumptions: []string{"lists are ordered by start and f > 0 (the property's precondition)", "times are non-negative"},
		Cases: func(tier string) int64 {
			return int64(len(c10Lists(tier))) + randomN(tier) + cliN(tier)
		},
		Exhaustive: func(tier string) string {
			return fmt.Sprintf("all %d start-ordered grid lists x f in 1..5 x {exact, spare} capacity (random and CLI parts are sampled)", len(c10Lists(tier)))
		},
		Anchors: []string{"Subtitles.Fragment", "Subtitles.Order", "astisub/main.go fragment"},
		Run: func(c *fw.Ctx) fw.Outcome {
			lists := c10Lists(c.Tier)
			g := int64(len(lists))
			switch {
			case c.Idx < g:
				cs := lists[c.Idx]
				for f := int64(1); f <= 5; f++ {
					for _, spare := range []int{0, 8} {
						if msg := c10Check(cs, f, spare, c.Idx%4 == 0); msg != "" {
							return fw.Bad(hashCues(cs), nil, "%s", msg)
						}
					}
				}
				c.Count("grid_fragmentations_checked", 10)
				c.Feature(fmt.Sprintf("grid len=%d", len(cs)))
				return fw.OK(hashCues(cs), map[string]interface{}{"cues": fmtCues(cs), "f": "1..5"})
			case c.Idx < g+randomN(c.Tier):
				cs, f := c10Random(c.R)
				if msg := c10Check(cs, f, c.R.Intn(3)*4, c.R.Bool()); msg != "" {
					return fw.Bad(hashCues(cs, uint64(f)), nil, "%s", msg)
				}
				c.Count("random_fragmentations_checked", 1)
				c.Feature(fmt.Sprintf("random len=%d", len(cs)/10*10))
				return fw.OK(hashCues(cs, uint64(f)), nil)
			default:
				if !haveCLI() {
					return fw.Skip()
				}
				c.Feature("cli fragment")
				return c10CLI(c)
			}
		},
	})
}
