package props

import (
	"bytes"
	"fmt"
	"io"
	"os"
	"path/filepath"
	"reflect"
	"sort"
	"strings"
	"time"

	astisub "github.com/asticode/go-astisub"
	"verif/harness/fw"
)

// Shared document corpus (valid documents of every format from the C01-C06 generators and /repo/testdata) and a
// pointer-graph aware deep dump used for snapshots.

type corpusDoc struct {
	Format string // srt webvtt ttml ssa stl teletext
	Ext    string
	Data   []byte
	Read   func(r io.Reader) (*astisub.Subtitles, error)
	Origin string
}

var corpusFormats = []string{"srt", "webvtt", "ttml", "ssa", "stl", "teletext"}

func corpusReader(format string, opts astisub.TeletextOptions) func(r io.Reader) (*astisub.Subtitles, error) {
	switch format {
	case "srt":
		return func(r io.Reader) (*astisub.Subtitles, error) { return astisub.ReadFromSRT(r) }
	case "webvtt":
		return func(r io.Reader) (*astisub.Subtitles, error) { return astisub.ReadFromWebVTT(r) }
	case "ttml":
		return func(r io.Reader) (*astisub.Subtitles, error) { return astisub.ReadFromTTML(r) }
	case "ssa":
		return func(r io.Reader) (*astisub.Subtitles, error) { return astisub.ReadFromSSA(r) }
	case "stl":
		return func(r io.Reader) (*astisub.Subtitles, error) { return astisub.ReadFromSTL(r, astisub.STLOptions{}) }
	}
	return func(r io.Reader) (*astisub.Subtitles, error) { return astisub.ReadFromTeletext(r, opts) }
}

var corpusExt = map[string]string{"srt": ".srt", "webvtt": ".vtt", "ttml": ".ttml", "ssa": ".ssa", "stl": ".stl", "teletext": ".ts"}

// genDoc generates a valid document of the given format with the C01-C06 generators
func genDoc(r *fw.Rand, format string, big bool) corpusDoc {
	d := corpusDoc{Format: format, Ext: corpusExt[format], Origin: "generated"}
	d.Read = corpusReader(format, astisub.TeletextOptions{})
	switch format {
	case "srt":
		m := srtGenModel(r)
		if big {
			m = srtGenModelN(r, r.Range(30, 60))
		}
		d.Data = srtRenderDoc(m, srtGenRender(r), r)
	case "webvtt":
		m := vttGenModel(r, false)
		if big {
			for i := 0; i < 8; i++ {
				m.Cues = append(m.Cues, vttGenModel(r, false).Cues...)
			}
			for k := range m.Cues {
				m.Cues[k].Region = ""
			}
		}
		d.Data = vttRenderDoc(m, vttGenRender(r), r)
	case "ttml":
		m := ttmlGenModel(r, false)
		d.Data = ttmlRenderDoc(m, ttmlGenRender(r), r)
	case "ssa":
		m := ssaGenModel(r, false)
		if big {
			for i := 0; i < 8; i++ {
				m.Events = append(m.Events, m.Events...)
				if len(m.Events) > 60 {
					break
				}
			}
		}
		d.Data, _ = ssaRenderDoc(m, ssaGenRender(r, m.V4Plus), r)
	case "stl":
		m := stlGenModel(r, nil)
		d.Data = stlEncodeDoc(m, r)
	case "teletext":
		s := ttxGenStreamMode(r, r.Bool()) // every other stream: tables exactly once, PID to be found (the reader then reads the stream twice)
		d.Data = s.data
		d.Read = corpusReader(format, s.opts)
	}
	return d
}

var testdataCache []corpusDoc

// testdataDocs returns the input documents shipped in /repo/testdata
func testdataDocs() []corpusDoc {
	if testdataCache != nil {
		return testdataCache
	}
	repo := os.Getenv("VERIF_REPO")
	if repo == "" {
		repo = "/repo"
	}
	files, _ := filepath.Glob(repo + "/testdata/*")
	sort.Strings(files)
	for _, f := range files {
		var format string
		switch strings.ToLower(filepath.Ext(f)) {
		case ".srt":
			format = "srt"
		case ".vtt":
			format = "webvtt"
		case ".ttml":
			format = "ttml"
		case ".ssa", ".ass":
			format = "ssa"
		case ".stl":
			format = "stl"
		default:
			continue
		}
		b, err := os.ReadFile(f)
		if err != nil {
			continue
		}
		testdataCache = append(testdataCache, corpusDoc{Format: format, Ext: corpusExt[format], Data: b, Read: corpusReader(format, astisub.TeletextOptions{}), Origin: filepath.Base(f)})
	}
	return testdataCache
}

// richSubtitles builds a cue list that exercises every writer: styles and regions with heterogeneous attribute
// subsets, WebVTT style lines spread over several styles, SSA/TTML/STL/WebVTT attributes, metadata of all formats.
func richSubtitles(r *fw.Rand) *astisub.Subtitles {
	s := astisub.NewSubtitles()
	ns, nr := r.Intn(7), r.Intn(7)
	caseIDs := r.P(1, 4)
	namedIDs := !caseIDs && r.P(1, 3)
	padIDs := !caseIDs && !namedIDs && r.P(1, 4)
	var styles []*astisub.Style
	for k := 0; k < ns; k++ {
		sa := &astisub.StyleAttributes{}
		// heterogeneous subsets
		if r.Bool() {
			sa = ssaSetStyleAttrs(randomSSAAttrs(r))
		}
		ta := ttmlSetAttrs(ttmlGenAttrs(r, 6))
		mergeTTML(sa, ta)
		if r.Bool() {
			sa.WebVTTStyles = []string{fmt.Sprintf("::cue(.s%d) {", k), "color: red;", "}"}
		}
		if r.P(1, 3) {
			// region attributes on a style: what a region that relies on it falls back to
			sa.WebVTTLines, sa.WebVTTRegionAnchor, sa.WebVTTViewportAnchor, sa.WebVTTWidth, sa.WebVTTScroll = r.Range(1, 9), "0%,100%", "10%,90%", "60%", "up"
		}
		st := &astisub.Style{ID: fmt.Sprintf("style%d", k), InlineStyle: sa}
		if k%2 == 1 && caseIDs {
			st.ID = fmt.Sprintf("Style%d", k-1) // differs from its neighbour only by letter case
		}
		if namedIDs {
			// the names an SSA script would use, "Default" among names that sort before and after it
			st.ID = []string{"Default", "Alt", "Sign", "1st", "default", "Caption", "*Default"}[k]
		}
		if padIDs {
			st.ID = []string{"s", "s0", "s00", "s1", "s01", "s10", "s010"}[k]
		}
		if k > 0 && r.Bool() {
			st.Style = styles[r.Intn(k)]
		}
		if r.P(1, 8) {
			st.InlineStyle = nil
		}
		styles = append(styles, st)
		s.Styles[st.ID] = st
	}
	var regions []*astisub.Region
	for k := 0; k < nr; k++ {
		rg := &astisub.Region{ID: fmt.Sprintf("region%d", k), InlineStyle: ttmlSetAttrs(ttmlGenAttrs(r, 6))}
		if padIDs {
			rg.ID = []string{"r1", "r01", "r001", "r10", "r010", "r", "r0"}[k] // numbered with and without zeros in front
		}
		if r.Bool() {
			rg.InlineStyle.WebVTTLines, rg.InlineStyle.WebVTTWidth, rg.InlineStyle.WebVTTScroll = r.Range(1, 5), "40%", "up"
		}
		if ns > 0 && r.Bool() {
			rg.Style = styles[r.Intn(ns)]
		}
		if r.P(1, 5) {
			rg.InlineStyle = nil // a region that is only a name (or relies on its style)
		}
		regions = append(regions, rg)
		s.Regions[rg.ID] = rg
	}
	if r.P(5, 6) {
		cd := time.Date(2019, 3, 4, 0, 0, 0, 0, time.UTC)
		mnc := 38
		md := &astisub.Metadata{Title: fw.Pick(r, []string{"T", "T", "A title that is a good deal longer than thirty-two bytes", "Épisode n° 12 «été» — l'intégrale restaurée"}), Language: fw.Pick(r, []string{"", "english", "french", "norwegian", "chinese", "japanese"}), TTMLCopyright: "C", Comments: fw.Pick(r, [][]string{{"c1"}, {"c1"}, {"first line\nsecond line", "c2"}}), SSAScriptType: fw.Pick(r, []string{"v4.00", "v4.00+", ""}),
			Framerate: fw.Pick(r, []int{0, 25, 30}), STLDisplayStandardCode: fw.Pick(r, []string{"", "0", "1"}), STLMaximumNumberOfDisplayableCharactersInAnyTextRow: &mnc}
		switch r.Intn(5) {
		case 0:
			md.STLCreationDate, md.STLRevisionDate = &cd, &cd
		case 1:
			md.STLCreationDate = &cd
		case 3:
			md.STLRevisionDate = &cd // only the revision date is supplied
		case 2:
			// dates supplied, one of them the zero date (what the STL reader returns for a blank date field)
			md.STLCreationDate, md.STLRevisionDate = &cd, &time.Time{}
			if r.Bool() {
				md.STLCreationDate, md.STLRevisionDate = md.STLRevisionDate, md.STLCreationDate
			}
		}
		if r.Bool() {
			// (a packager that has been running for days hands over clock values beyond 33 bits)
			md.WebVTTTimestampMap = &astisub.WebVTTTimestampMap{Local: time.Second, MpegTS: fw.Pick(r, []int64{900000, 900000, 1<<33 + 5, 1 << 40})}
		}
		s.Metadata = md
	}
	var t int64
	var sharedNotes []string
	if r.P(1, 4) {
		sharedNotes = []string{"note 0", "note 1", "note 2", "note 3", "note 4", "note 5"}
	}
	for k := 0; k < r.Range(1, 6); k++ {
		t += int64(r.Intn(3000)) * 1e6
		it := &astisub.Item{StartAt: time.Duration(t), EndAt: time.Duration(t + int64(r.Range(1, 4000))*1e6), Index: k + 1}
		t = int64(it.EndAt)
		if r.Bool() {
			it.Comments = []string{"note"}
			if sharedNotes != nil && k < len(sharedNotes) {
				// the notes of all cues were loaded into one slice: each cue holds a window of it, with the others behind
				it.Comments = sharedNotes[k : k+1]
			}
		}
		if r.Bool() {
			j := astisub.JustificationCentered
			it.InlineStyle = &astisub.StyleAttributes{WebVTTAlign: "left", WebVTTPosition: "10%", SSAEffect: "fx", STLJustification: &j, STLPosition: &astisub.STLPosition{VerticalPosition: 18}}
			mergeTTML(it.InlineStyle, ttmlSetAttrs(ttmlGenAttrs(r, 4)))
		}
		if ns > 0 && r.Bool() {
			it.Style = styles[r.Intn(ns)]
		}
		if nr > 0 && r.Bool() {
			it.Region = regions[r.Intn(nr)]
		}
		if r.P(1, 10) {
			// a cue that refers to a region and a style its list does not hold (taken over from another list)
			it.Region = &astisub.Region{ID: "elsewhere", InlineStyle: &astisub.StyleAttributes{WebVTTWidth: "30%"}}
			it.Style = &astisub.Style{ID: "elsewhere", InlineStyle: &astisub.StyleAttributes{SSAFontName: "X"}}
		}
		for l := 0; l < r.Range(1, 2); l++ {
			line := astisub.Line{}
			if r.P(1, 3) {
				line.VoiceName = "Bob"
			}
			for q := 0; q < r.Range(1, 3); q++ {
				li := astisub.LineItem{Text: fw.Pick(r, []string{"hello", "World & co", "naïve café", "a<b", "x y"})}
				if r.Bool() {
					tr := true
					col := fw.Pick(r, []string{"#ff0000", "#ff0000", "#FF0000", " Red ", "RGBA(1,2,3,4)", "#00ffff", "#ffff00", "#00ff00", "#ff00ff", "#0000ff", "#ffffff", "#000000", "#00FFFF"}) // as other formats' parsers or a caller may leave them
					li.InlineStyle = &astisub.StyleAttributes{SRTBold: r.Bool(), SRTItalics: r.Bool(), STLItalics: &tr, SSAEffect: fw.Pick(r, []string{"", `{\i1}`}), TTMLColor: &col,
						WebVTTTags: []astisub.WebVTTTag{{Name: "c", Classes: fw.Pick(r, [][]string{{"x"}, {"loud", "big"}, {"z", "a", "m"}})}}}
					if r.Bool() {
						li.InlineStyle.SRTColor = &col
					}
				}
				if li.InlineStyle == nil && r.P(1, 6) {
					// a run that only carries what a teletext source said about it (colour, size), set by hand or left after
					// the derived colour was cleared
					dh := true
					li.InlineStyle = &astisub.StyleAttributes{TeletextColor: fw.Pick(r, []*astisub.Color{astisub.ColorYellow, astisub.ColorCyan, astisub.ColorWhite}), TeletextDoubleHeight: &dh}
				}
				if ns > 0 && r.P(1, 3) {
					li.Style = styles[r.Intn(ns)]
				}
				if q > 0 && r.P(1, 3) {
					li.StartAt = it.StartAt + time.Duration(q)*time.Millisecond*100
				}
				line.Items = append(line.Items, li)
			}
			it.Lines = append(it.Lines, line)
		}
		if r.P(1, 6) {
			// a line without any run (an empty row kept for the layout), before, between or after the others
			at := r.Intn(len(it.Lines) + 1)
			it.Lines = append(it.Lines[:at], append([]astisub.Line{{}}, it.Lines[at:]...)...)
			if r.Bool() {
				it.Lines = append(it.Lines, astisub.Line{Items: []astisub.LineItem{{Text: "after"}}})
			}
		}
		s.Items = append(s.Items, it)
	}
	if r.P(1, 4) {
		fw.Shuffle(r, s.Items) // a list that is not ordered by start is a legal list
	}
	return s
}

func randomSSAAttrs(r *fw.Rand) map[string]string {
	a := map[string]string{}
	for _, c := range ssaStyleCols {
		if r.P(1, 3) {
			a[c.Name] = ssaGenValue(r, c.Kind)
		}
	}
	return a
}

func mergeTTML(dst, src *astisub.StyleAttributes) {
	d, s := reflect.ValueOf(dst).Elem(), reflect.ValueOf(src).Elem()
	for i := 0; i < d.NumField(); i++ {
		if strings.HasPrefix(d.Type().Field(i).Name, "TTML") && !s.Field(i).IsNil() {
			d.Field(i).Set(s.Field(i))
		}
	}
}

type namedWriter struct {
	name  string
	write func(s astisub.Subtitles, w io.Writer) error
}

var allWriters = []namedWriter{
	{"srt", func(s astisub.Subtitles, w io.Writer) error { return s.WriteToSRT(w) }},
	{"ssa", func(s astisub.Subtitles, w io.Writer) error { return s.WriteToSSA(w) }},
	{"stl", func(s astisub.Subtitles, w io.Writer) error { return s.WriteToSTL(w) }},
	{"ttml", func(s astisub.Subtitles, w io.Writer) error { return s.WriteToTTML(w) }},
	{"webvtt", func(s astisub.Subtitles, w io.Writer) error { return s.WriteToWebVTT(w) }},
}

func writeBytes(w namedWriter, s *astisub.Subtitles) (out []byte, err error, panicked string) {
	var b bytes.Buffer
	panicked = guard(func() { err = w.write(*s, &b) })
	return b.Bytes(), err, panicked
}

// deepDump serialises a value following pointers, with pointer identities, so that any write through a pointer or any
// re-pointing is visible when two dumps are compared
func deepDump(v interface{}) string {
	var b strings.Builder
	seen := map[uintptr]int{}
	var walk func(v reflect.Value, depth int)
	walk = func(v reflect.Value, depth int) {
		if depth > 40 {
			b.WriteString("<deep>")
			return
		}
		switch v.Kind() {
		case reflect.Ptr:
			if v.IsNil() {
				b.WriteString("nil")
				return
			}
			p := v.Pointer()
			if id, ok := seen[p]; ok {
				fmt.Fprintf(&b, "@%d", id)
				return
			}
			seen[p] = len(seen)
			fmt.Fprintf(&b, "&%d(", seen[p])
			walk(v.Elem(), depth+1)
			b.WriteString(")")
		case reflect.Struct:
			if v.CanInterface() { // (an unexported field cannot be taken out; it is walked like any struct)
				if t, ok := v.Interface().(time.Time); ok {
					b.WriteString(t.UTC().Format(time.RFC3339Nano))
					return
				}
			}
			b.WriteString("{")
			for i := 0; i < v.NumField(); i++ {
				if !v.Type().Field(i).IsExported() {
					continue
				}
				b.WriteString(v.Type().Field(i).Name + ":")
				walk(v.Field(i), depth+1)
				b.WriteString(",")
			}
			b.WriteString("}")
		case reflect.Slice:
			if v.IsNil() {
				b.WriteString("nilslice")
				return
			}
			fmt.Fprintf(&b, "[len=%d cap=%d:", v.Len(), v.Cap())
			for i := 0; i < v.Len(); i++ {
				walk(v.Index(i), depth+1)
				b.WriteString(",")
			}
			b.WriteString("]")
		case reflect.Map:
			if v.IsNil() {
				b.WriteString("nilmap")
				return
			}
			keys := v.MapKeys()
			sort.Slice(keys, func(i, j int) bool { return fmt.Sprint(keys[i]) < fmt.Sprint(keys[j]) })
			b.WriteString("map[")
			for _, k := range keys {
				fmt.Fprintf(&b, "%v:", k)
				walk(v.MapIndex(k), depth+1)
				b.WriteString(",")
			}
			b.WriteString("]")
		case reflect.String:
			fmt.Fprintf(&b, "%q", v.String())
		default:
			fmt.Fprintf(&b, "%v", v.Interface())
		}
	}
	walk(reflect.ValueOf(v), 0)
	return b.String()
}
