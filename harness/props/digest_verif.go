//go:build verif

package props

import astisub "github.com/asticode/go-astisub"

// stateDigest is the canary over the package-level tables (hook compiled with the verif build tag)
func stateDigest() string { return astisub.VerifStateDigest() }
