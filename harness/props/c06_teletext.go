package props

import (
	"bytes"
	"fmt"
	"io"
	"strings"
	"time"
	"unicode"

	"github.com/asticode/go-astikit"
	astisub "github.com/asticode/go-astisub"
	"verif/harness/fw"
)

// C06 Teletext in TS: ground-truth page schedule -> stream (own encoders) -> library reader.

type ttxRun struct {
	Text  string
	Style stlStyle // Color, DH, DW, DS are used
}

type ttxInstance struct {
	rows    map[int][]ttxRun // expected runs per row number
	order   []int            // transmission order of the rows
	cells   map[int][40]byte // encoded cells per row
	pts     int64            // of the PES that carried the header (filled while multiplexing)
	erase   bool             // header only
	charset int
}

type ttxStream struct {
	data      []byte
	opts      astisub.TeletextOptions
	expected  []ttxExpCue
	counters  map[string]int64
	feature   string
	mag, page int
}

type ttxExpCue struct {
	start, end int64 // ns relative to the first PTS on the PID
	rows       [][]ttxRun
}

func ttxDecodeCell(code byte, charset int) string {
	if code < 0x20 {
		return ""
	}
	i := int(code) - 0x20
	if nat := teletextNational[charset&7]; nat != nil {
		for k, pos := range teletextNationalPositions {
			if pos == i {
				return nat[k]
			}
		}
	}
	return teletextG0[i]
}

// ttxGenRow builds the 40 cells of a row and the runs they denote
func ttxGenRow(r *fw.Rand, charset int, c map[string]int64) (cells [40]byte, runs []ttxRun) {
	for i := range cells {
		cells[i] = oddParity(' ')
	}
	var st stlStyle
	cur := ttxRun{}
	started := false
	pos := r.Intn(6)
	put := func(code byte, badParity bool) {
		if pos >= 40 {
			return
		}
		if badParity {
			cells[pos] = evenParityTS(code)
		} else {
			cells[pos] = oddParity(code)
		}
		pos++
	}
	flush := func() {
		runs = append(runs, cur)
		cur = ttxRun{Style: st}
	}
	// unboxed text and codes before the box contribute nothing (codes still set the style)
	if r.P(1, 4) {
		for _, ch := range "no" {
			put(byte(ch), false)
		}
	}
	if r.P(1, 3) {
		col := r.Intn(8)
		put(byte(col), false)
		st.Color = stlTeletextColors[col]
	}
	if r.P(1, 4) {
		put(0x0d, false)
		st.DH = true
	}
	cur.Style = st
	put(0x0b, false)
	if r.Bool() {
		put(0x0b, false)
	}
	started = true
	ntok := r.Range(1, 4)
	for k := 0; k < ntok && pos < 34; k++ {
		if k > 0 {
			switch r.Intn(3) {
			case 0:
				col := r.Intn(8)
				for stlTeletextColors[col] == st.Color {
					col = r.Intn(8)
				}
				flush()
				put(byte(col), false)
				st.Color = stlTeletextColors[col]
			case 1:
				code := byte(0x0c + r.Intn(4))
				flush()
				put(code, false)
				switch code {
				case 0x0c:
					st.DH, st.DW, st.DS = false, false, false
				case 0x0d:
					st.DH = true
				case 0x0e:
					st.DW = true
				case 0x0f:
					st.DS = true
				}
			default:
				put(' ', false)
				cur.Text += " "
			}
			cur.Style = st
		}
		n := r.Range(1, 6)
		for j := 0; j < n && pos < 36; j++ {
			var code byte
			switch r.Intn(4) {
			case 0: // one of the 13 national option positions
				code = byte(0x20 + fw.Pick(r, teletextNationalPositions[:]))
				c["national_position_cells"]++
			case 1:
				code = byte(0x20 + r.Intn(0x60)) // any G0 code, 0x7f included
			default:
				code = byte(fw.Pick(r, []rune("abcdefghijklmnopqrstuvwxyzABCDEFGHIJKLMNOPQRSTUVWXYZ0123456789 .,!?'")))
			}
			if r.P(1, 25) {
				// a cell failing parity contributes no character
				put(code, true)
				c["parity_error_cells"]++
				cur.Text += "\x00" // marker: the library treats it as a colour code (allowed); compared space-free
				continue
			}
			put(code, false)
			if started {
				cur.Text += ttxDecodeCell(code, charset)
			}
		}
	}
	flush()
	if r.Bool() {
		put(0x0a, false)
		put(0x0a, false)
		if r.P(1, 3) {
			for _, ch := range "tail" {
				put(byte(ch), false)
			}
		}
		if r.P(1, 3) && pos < 34 {
			// a second box on the same row (two speakers boxed separately): its text belongs to the line as well
			put(0x0b, false)
			// (whether the cells between the two boxes count as a blank is not settled by the property: such rows are
			// compared on their characters, marker \x01)
			cur = ttxRun{Style: st, Text: "\x01"}
			for _, ch := range fw.Pick(r, []string{"two", "B: no", "x"}) {
				put(byte(ch), false)
				cur.Text += ttxDecodeCell(byte(ch), charset)
			}
			flush()
			if r.Bool() {
				put(0x0a, false)
			}
			c["rows_with_two_boxes"]++
		}
	}
	return
}

func ttxCanonRuns(runs []ttxRun) string {
	var s []stlRun
	for _, r := range runs {
		s = append(s, stlRun{Text: r.Text, Style: r.Style})
	}
	var b strings.Builder
	for _, r := range stlCanon(s) {
		fmt.Fprintf(&b, "%q{%s dh=%v dw=%v ds=%v} ", r.Text, r.Style.Color, r.Style.DH, r.Style.DW, r.Style.DS)
	}
	return b.String()
}

// space-free character sequence (used for rows that contain a parity error)
func ttxChars(runs []ttxRun) string {
	var b strings.Builder
	for _, r := range runs {
		for _, ch := range r.Text {
			if ch > 1 && !unicode.IsSpace(ch) {
				b.WriteRune(ch)
			}
		}
	}
	return b.String()
}

// ttxBlanks counts the blanks of a row's text
func ttxBlanks(runs []ttxRun) int {
	n := 0
	for _, r := range runs {
		for _, ch := range r.Text {
			if ch == ' ' {
				n++
			}
		}
	}
	return n
}

func hasTwoBoxMarker(runs []ttxRun) bool {
	for _, r := range runs {
		if strings.Contains(r.Text, "\x01") {
			return true
		}
	}
	return false
}

func hasParityMarker(runs []ttxRun) bool {
	for _, r := range runs {
		if strings.Contains(r.Text, "\x00") {
			return true
		}
	}
	return false
}

type ttxUnitSpec struct {
	bytes []byte
}

// ttxGenStream builds a whole transport stream from a random page schedule
// ttxFarOdds: one late-table stream in so many has its tables beyond 64 KiB (C17 lowers it for its few documents)
var ttxFarOdds = 3

func ttxGenStream(r *fw.Rand) ttxStream {
	// one stream in four carries its tables exactly once and leaves the PID to be found: the demultiplexer then
	// hands the PMT over only when the stream ends, and the reader starts again from the beginning
	return ttxGenStreamMode(r, r.P(1, 4))
}

func ttxGenStreamMode(r *fw.Rand, tablesOnce bool) ttxStream {
	cnt := map[string]int64{}
	if tablesOnce {
		cnt["streams_with_tables_sent_exactly_once_and_pid_to_be_found"]++
	}
	mag, page := r.Range(1, 8), r.Intn(100)
	serial := r.Bool()
	// whether the reader will be told the page, and if so whether the page carries the subtitle flag at all (the
	// flag only matters for finding a page when none is given: subtitles also travel on ordinary and newsflash pages)
	pageGiven := r.Bool()
	flagged := !(pageGiven && r.P(1, 3))
	if !flagged {
		cnt["streams_whose_selected_page_lacks_the_subtitle_flag"]++
	}
	// the line offset of the data units: the usual line 7, "undefined" (0: file-based inserters have no VBI line to
	// report), or any line and field per unit
	lineMode := r.Intn(3)
	lineByte := func() byte {
		switch lineMode {
		case 0:
			return 0xe7
		case 1:
			return fw.Pick(r, []byte{0xc0, 0xe0})
		}
		return 0xc0 | byte(r.Intn(2))<<5 | fw.Pick(r, []byte{0, 7, 8, 15, 21, 22})
	}
	tpid := uint16(r.Range(0x100, 0x1fe0))
	pmtPID := uint16(r.Range(0x20, 0xff))
	var otherPIDs []uint16
	for i := 0; i < r.Intn(3); i++ {
		p := uint16(r.Range(0x20, 0x1fdf))
		if p != tpid && p != pmtPID {
			otherPIDs = append(otherPIDs, p)
		}
	}
	ninst := r.Range(1, 8)
	insts := make([]*ttxInstance, ninst)
	for k := range insts {
		in := &ttxInstance{rows: map[int][]ttxRun{}, cells: map[int][40]byte{}, charset: r.Intn(8)}
		if r.P(1, 6) {
			in.erase = true
		} else {
			used := map[int]bool{}
			for j := 0; j < r.Range(1, 4); j++ {
				row := r.Range(1, 24)
				if used[row] {
					continue
				}
				used[row] = true
				cells, runs := ttxGenRow(r, in.charset, cnt)
				in.rows[row], in.cells[row] = runs, cells
				in.order = append(in.order, row)
			}
		}
		insts[k] = in
	}
	// a distractor page: never the selected page
	distractor := func(sameMag bool) (int, int) {
		for {
			m, p := r.Range(1, 8), r.Intn(100)
			if sameMag {
				m = mag
			}
			if (m != mag) == !sameMag && (m != mag || p != page) {
				if !sameMag && serial && p == page {
					continue // (same page number in another magazine under serial mode is not generated)
				}
				return m, p
			}
		}
	}
	distractorUnits := func(sameMag bool, subtitleFlag bool) [][]byte {
		m, p := distractor(sameMag)
		var us [][]byte
		// (a newsflash page is not a subtitle page: it is never the one found when no page is given)
		hdr := ttxHeader(p, ttxHeaderFlags{subtitle: subtitleFlag, newsflash: r.P(1, 3), serial: serial, charset: r.Intn(8)})
		if r.P(1, 4) {
			// a data page whose number has a hexadecimal digit (8A5, 1F0 ...); FF is the time-filling header and excluded,
			// and so is a number the library's decimal reading tens*10+units would take for the selected page
			for {
				tens, units := r.Intn(16), r.Intn(16)
				if (tens >= 10 || units >= 10) && !(tens == 15 && units == 15) && tens*10+units != page {
					hdr = ttxHeaderNibbles(tens, units, ttxHeaderFlags{subtitle: false, serial: serial, charset: r.Intn(8)})
					cnt["hex_page_distractors"]++
					break
				}
			}
		}
		us = append(us, ttxUnit(0x03, 0xe4, m, 0, hdr))
		if sameMag && r.Bool() {
			// the other page brings its own X/28/0 format 1 packet designating some other default character set (a
			// Polish or Cyrillic text page next to the subtitle page): it says nothing about the selected page
			var x [40]byte
			for i := range x {
				x[i] = byte(r.Intn(256))
			}
			x[0] = ham84(0)
			x[1] &^= 0x0f
			if x[2]&0x3c == 0 {
				x[2] |= byte(r.Range(1, 15)) << 2
			}
			us = append(us, ttxUnit(0x03, 0xe4, m, 28, x))
			cnt["x28_packets_of_other_pages"]++
		}
		for j := 0; j < r.Intn(3); j++ {
			cells, _ := ttxGenRow(r, 0, map[string]int64{})
			us = append(us, ttxUnit(0x03, 0xe4, m, r.Range(1, 24), cells))
		}
		cnt["distractor_pages"]++
		return us
	}
	noise := func(receivingMag int) []byte {
		var p [40]byte
		for i := range p {
			p[i] = byte(r.Intn(256))
		}
		switch r.Intn(8) {
		case 0:
			cnt["stuffing_units"]++
			return stuffingUnit()
		case 1: // non-subtitle data unit carrying what looks like a row of the selected page
			cnt["non_subtitle_units"]++
			cells, _ := ttxGenRow(r, 0, map[string]int64{})
			return ttxUnit(0x02, 0xe4, mag, r.Range(1, 24), cells)
		case 2: // wrong framing code
			cnt["wrong_framing_units"]++
			cells, _ := ttxGenRow(r, 0, map[string]int64{})
			return ttxUnit(0x03, 0x27, mag, r.Range(1, 24), cells)
		case 3: // X/26, X/27
			cnt["x26_x27_packets"]++
			p[0] = ham84(byte(r.Intn(16)))
			return ttxUnit(0x03, 0xe4, mag, fw.Pick(r, []int{26, 27}), p)
		case 4: // X/28: designation 0 or 4 with the default G0 set (bits 10..13 of triplet 1 zero), or another designation
			cnt["x28_packets"]++
			p[0] = ham84(byte(fw.Pick(r, []int{0, 4, 1, 3})))
			p[2] &^= 0x3c
			if r.Bool() {
				p[1] &^= 0x0f
			}
			return ttxUnit(0x03, 0xe4, mag, 28, p)
		case 5: // M/29
			cnt["m29_packets"]++
			p[0] = ham84(byte(fw.Pick(r, []int{0, 4, 2})))
			p[2] &^= 0x3c
			return ttxUnit(0x03, 0xe4, mag, 29, p)
		case 6: // 8/30 broadcast service data
			cnt["8_30_packets"]++
			p[0] = ham84(byte(r.Intn(4)))
			return ttxUnit(0x03, 0xe4, 8, 30, p)
		default: // a row of another magazine (no header needed to be ignored)
			m, _ := distractor(false)
			cells, _ := ttxGenRow(r, 0, map[string]int64{})
			cnt["foreign_magazine_rows"]++
			return ttxUnit(0x03, 0xe4, m, r.Range(1, 24), cells)
		}
	}
	// unit sequence, with markers for instance headers
	type unit struct {
		b      []byte
		header *ttxInstance
	}
	var units []unit
	add := func(bs ...[]byte) {
		for _, b := range bs {
			units = append(units, unit{b: b})
		}
	}
	// before the first instance: distractors must not carry the subtitle flag (auto-detection takes the first flagged page)
	for i := 0; i < r.Intn(3); i++ {
		add(distractorUnits(r.Bool(), false)...)
	}
	flip := func(b []byte) []byte {
		// a single-bit error in a Hamming-protected byte must be corrected
		c := append([]byte(nil), b...)
		i := fw.Pick(r, []int{4, 5})
		c[i] ^= 1 << uint(r.Intn(8))
		cnt["hamming_single_bit_errors"]++
		return c
	}
	for _, in := range insts {
		h := ttxUnit(0x03, 0xe4, mag, 0, ttxHeader(page, ttxHeaderFlags{erase: in.erase, subtitle: flagged, newsflash: r.P(1, 6), serial: serial, charset: in.charset}))
		if r.P(1, 6) {
			h = flip(h)
		}
		units = append(units, unit{b: h, header: in})
		for _, row := range in.order {
			if r.P(1, 3) {
				add(noise(mag))
			}
			if !serial && r.P(1, 5) {
				// parallel mode: another magazine's page may be transmitted inside the instance
				add(distractorUnits(false, r.Bool())...)
				cnt["distractor_inside_instance"]++
			}
			u := ttxUnit(0x03, 0xe4, mag, row, in.cells[row])
			if r.P(1, 8) {
				u = flip(u)
			}
			add(u)
		}
		cnt["page_instances"]++
		// between instances
		for i := 0; i < r.Intn(3); i++ {
			if r.Bool() {
				add(distractorUnits(r.Bool(), r.Bool())...)
			} else {
				add(noise(0))
			}
		}
	}
	// PES packetisation: 1..N units per PES, headers and rows in the same or following PES
	w := newTSWriter()
	announceOther := r.P(1, 3)
	ttxDescTag := fw.Pick(r, []byte{0x56, 0x56, 0x46})
	cnt[fmt.Sprintf("streams_announced_by_descriptor_0x%02x", ttxDescTag)]++
	tables := func() {
		w.payloadUnit(0, patSection([][2]uint16{{1, pmtPID}}), true)
		streams := []pmtStream{{0x1b, 0x1ff0, nil}}
		if r.Bool() {
			streams = append(streams, pmtStream{0x03, 0x1ff1, []byte{0x0a, 4, 'e', 'n', 'g', 0}})
		}
		// the teletext stream is announced by a teletext descriptor or by a VBI teletext descriptor (same body)
		// (the page the descriptor announces is a hint for receivers: it is the transmitted pages that count)
		amag, apage := mag, page
		if announceOther {
			amag, apage = mag%8+1, (page+37)%100
		}
		streams = append(streams, pmtStream{0x06, tpid, teletextDescriptor(ttxDescTag, amag, apage)})
		if r.P(1, 3) {
			streams = append(streams, pmtStream{0x06, tpid + 1, teletextDescriptor(0x56, 1, 0)}) // a second teletext PID: the first one is taken
		}
		w.payloadUnit(pmtPID, pmtSection(1, 0x1ff0, streams), true)
		cnt["pat_pmt_transmissions"]++
	}
	// a capture that begins in the middle of a transmission: the first teletext PES comes before the first PAT/PMT
	lateTables := r.P(1, 5)
	farTables := lateTables && r.P(1, ttxFarOdds) // ... and a long way in: 70 to 100 kB of other packets come first
	if !lateTables {
		tables()
		if r.Bool() && !tablesOnce {
			tables() // (a reader that cannot seek must not depend on the tables being repeated)
		}
	} else {
		cnt["streams_with_pes_before_the_tables"]++
	}
	pts := r.I64n(1 << 32)
	if r.P(1, 6) {
		pts = fw.Pick(r, []int64{0, 0, 1, 90000}) // a stream whose clock starts at zero
	}
	var ptsList []int64
	i := 0
	for i < len(units) {
		n := r.Range(1, 5)
		if r.P(1, 6) {
			n = r.Range(6, 15)
		}
		payload := []byte{0x10}
		if r.P(1, 12) {
			payload[0] = byte(0x10 + r.Intn(16)) // any EBU data identifier
		}
		for j := 0; j < n && i < len(units); j++ {
			if units[i].header != nil {
				units[i].header.pts = pts
			}
			ub := append([]byte(nil), units[i].b...)
			if len(ub) > 2 && (ub[0] == 0x02 || ub[0] == 0x03) {
				ub[2] = lineByte()
			}
			payload = append(payload, ub...)
			i++
		}
		w.payloadUnit(tpid, pesPacket(0xbd, pts, r.Bool(), payload), false)
		cnt["teletext_pes"]++
		ptsList = append(ptsList, pts)
		if lateTables && len(ptsList) == 1 {
			if farTables {
				for i := r.Range(380, 540); i > 0; i-- {
					w.null()
				}
				cnt["streams_with_tables_beyond_64_KiB"]++
			}
			tables()
		}
		// in between: other PIDs, null packets, tables, non-EBU PES on the teletext PID
		if r.P(1, 4) {
			w.null()
			cnt["null_packets"]++
		}
		if len(otherPIDs) > 0 && r.P(1, 3) {
			p := fw.Pick(r, otherPIDs)
			vid := make([]byte, r.Range(10, 400))
			w.payloadUnit(p, pesPacket(0xe0, pts+1, false, vid), false)
			cnt["other_pid_pes"]++
		}
		if r.P(1, 5) && !tablesOnce {
			tables()
		}
		pts += int64(r.Range(1, 90000*4))
		if r.P(1, 10) {
			// a PES on the teletext PID that is not EBU data: it counts for the times only
			w.payloadUnit(tpid, pesPacket(0xbd, pts, false, []byte{0x20, 1, 2, 3}), false)
			ptsList = append(ptsList, pts)
			cnt["non_ebu_pes"]++
			pts += int64(r.Range(1, 90000))
		}
	}
	if r.P(1, 3) {
		// a final packet with the payload-unit-start flag on the highest PID, neither PSI nor PES
		junk := make([]byte, 184)
		for k := range junk {
			junk[k] = 0x55
		}
		w.packet(0x1ffe, true, junk)
		cnt["trailing_non_psi_non_pes_unit"]++
	}
	// expected cues
	first, last := ptsList[0], ptsList[0]
	for _, p := range ptsList {
		if p < first {
			first = p
		}
		if p > last {
			last = p
		}
	}
	ns := func(p int64) int64 { return p * 1e9 / 90000 }
	var exp []ttxExpCue
	for k, in := range insts {
		end := last
		if k+1 < len(insts) {
			end = insts[k+1].pts
		}
		if in.erase || len(in.rows) == 0 {
			continue
		}
		c := ttxExpCue{start: ns(in.pts) - ns(first), end: ns(end) - ns(first)}
		for row := 1; row <= 24; row++ {
			if runs, ok := in.rows[row]; ok {
				c.rows = append(c.rows, runs)
			}
		}
		exp = append(exp, c)
	}
	s := ttxStream{data: w.buf.Bytes(), expected: exp, counters: cnt, mag: mag, page: page}
	pidGiven := r.Bool() && !tablesOnce
	if pageGiven {
		s.opts.Page = mag*100 + page
	}
	if pidGiven {
		s.opts.PID = int(tpid)
	}
	s.feature = fmt.Sprintf("serial=%v page=%v pid=%v inside=%v", serial, pageGiven, pidGiven, cnt["distractor_inside_instance"] > 0)
	return s
}

func ttxProject(s *astisub.Subtitles) []ttxExpCue {
	var out []ttxExpCue
	for _, it := range s.Items {
		c := ttxExpCue{start: int64(it.StartAt), end: int64(it.EndAt)}
		for _, l := range it.Lines {
			var runs []ttxRun
			for _, li := range l.Items {
				r := ttxRun{Text: li.Text}
				if sa := li.InlineStyle; sa != nil {
					r.Style = stlStyle{Color: stlColorName(sa.TeletextColor), DH: bp(sa.TeletextDoubleHeight), DW: bp(sa.TeletextDoubleWidth), DS: bp(sa.TeletextDoubleSize)}
				}
				runs = append(runs, r)
			}
			c.rows = append(c.rows, runs)
		}
		out = append(out, c)
	}
	return out
}

func ttxCompare(exp, got []ttxExpCue) string {
	if len(exp) != len(got) {
		return fmt.Sprintf("%d cues returned, the schedule transmitted %d non-empty instances of the selected page", len(got), len(exp))
	}
	for k := range exp {
		e, g := exp[k], got[k]
		if d := e.start - g.start; d < -1 || d > 1 {
			return fmt.Sprintf("cue %d starts at %d ns, the PES that began the instance is at %d ns", k, g.start, e.start)
		}
		if d := e.end - g.end; d < -1 || d > 1 {
			return fmt.Sprintf("cue %d ends at %d ns, the next instance (or the last presentation time) is at %d ns", k, g.end, e.end)
		}
		// rows whose denotation is empty produce no line
		var er [][]ttxRun
		for _, row := range e.rows {
			if ttxChars(row) != "" {
				er = append(er, row)
			}
		}
		if len(er) != len(g.rows) {
			return fmt.Sprintf("cue %d has %d lines, %d rows with boxed text were transmitted", k, len(g.rows), len(er))
		}
		for j := range er {
			if hasTwoBoxMarker(er[j]) {
				if a, b := ttxChars(er[j]), ttxChars(g.rows[j]); a != b {
					return fmt.Sprintf("cue %d line %d (row with two boxes): characters %q, transmitted in the boxes %q", k, j, b, a)
				}
				continue
			}
			if hasParityMarker(er[j]) {
				if a, b := ttxChars(er[j]), ttxChars(g.rows[j]); a != b {
					return fmt.Sprintf("cue %d line %d (row with parity errors): characters %q, transmitted %q", k, j, b, a)
				}
				// blanks next to a run boundary may go, but none comes from nowhere: a cell failing parity contributes
				// no text, not even a blank
				if a, b := ttxBlanks(er[j]), ttxBlanks(g.rows[j]); b > a {
					return fmt.Sprintf("cue %d line %d (row with parity errors): %d blanks in the text returned, %d were transmitted with correct parity: a cell failing parity has become a blank", k, j, b, a)
				}
				continue
			}
			if a, b := ttxCanonRuns(er[j]), ttxCanonRuns(g.rows[j]); a != b {
				return fmt.Sprintf("cue %d line %d: got %s, transmitted %s", k, j, b, a)
			}
		}
	}
	return ""
}

func ttxSelfTest() error {
	for n := byte(0); n < 16; n++ {
		if v, ok := astikit.ByteHamming84Decode(ham84(n)); !ok || v != n {
			return fmt.Errorf("hamming code word of %d decodes to %d,%v", n, v, ok)
		}
	}
	return nil
}

func c06Run(c *fw.Ctx) fw.Outcome {
	s := ttxGenStream(c.R)
	if c.Idx%8 >= 6 {
		// a capture that was cut in the middle of a packet: the incomplete packet carries nothing
		cut := make([]byte, c.R.Range(1, 187))
		for i := range cut {
			cut[i] = byte(c.R.Intn(256))
		}
		cut[0] = 0x47
		s.data = append(s.data, cut...)
		s.feature += " cut-last-packet"
		c.Count("streams_ending_in_an_incomplete_packet", 1)
	}
	key := fw.HashBytes(s.data)
	var got *astisub.Subtitles
	var err error
	// from a file-like reader that can seek, or (every other stream) from one that cannot, as a pipe or a socket would be
	var src io.Reader = bytes.NewReader(s.data)
	if c.Idx%2 == 1 {
		src = struct{ io.Reader }{bytes.NewReader(s.data)}
		c.Count("streams_read_from_a_reader_that_cannot_seek", 1)
	}
	if p := guard(func() { got, err = astisub.ReadFromTeletext(src, s.opts) }); p != "" {
		return fw.Bad(key, fmt.Sprintf("%x", s.data), "teletext reader panicked (%s, options %+v): %s", s.feature, s.opts, p)
	}
	if err != nil {
		return fw.Bad(key, fmt.Sprintf("%x", s.data), "teletext reader failed on a well-formed stream (%s, options %+v): %v", s.feature, s.opts, err)
	}
	if msg := ttxCompare(s.expected, ttxProject(got)); msg != "" {
		return fw.Bad(key, fmt.Sprintf("%x", s.data), "teletext reader (%s, page %d%02d, options %+v): %s", s.feature, s.mag, s.page, s.opts, msg)
	}
	for k, v := range s.counters {
		c.Count(k, v)
	}
	c.Count("cues_expected", int64(len(s.expected)))
	c.Feature(s.feature)
	var desc []string
	for _, e := range s.expected {
		var rows []string
		for _, r := range e.rows {
			rows = append(rows, ttxCanonRuns(r))
		}
		desc = append(desc, fmt.Sprintf("[%v-%v] %s", time.Duration(e.start), time.Duration(e.end), strings.Join(rows, " / ")))
	}
	return fw.OK(key, map[string]interface{}{"stream_bytes": len(s.data), "options": fmt.Sprintf("%+v", s.opts), "schedule": s.feature, "expected_cues": desc})
}

func init() {
	fw.Register(&fw.Property{
		ID:          "C06",
		Level:       "exploration",
		Rule:        "case = one transport stream generated from a ground-truth page schedule: 1..8 instances of a random page (magazine 1..8, page 00..99), each with 1..4 rows at rows 1..24 (or header only), cells over all G0 codes incl. the 13 national option positions under every C12-C14 value, colour/size/box codes, text outside the box, cells with wrong parity; serial or parallel magazine mode; distractor pages in the same and other magazines before, between and (parallel mode, other magazine) inside instances; stuffing and non-subtitle units, wrong framing code, X/26, X/27, X/28, M/29, 8/30 packets, rows of other magazines, single-bit errors in Hamming bytes, 1..15 units per PES, header and rows in the same or following PES, non-EBU PES on the teletext PID, PES on other PIDs below and above, null packets, PAT/PMT repeated, a second teletext PID in the PMT, a trailing payload unit that is neither PSI nor PES, a capture cut in the middle of its last packet (a quarter of the streams); options page given/0 and PID given/0. Oracle: the cue list computed from the schedule (start/end from the PTS of the PES carrying the instance headers, +-1 ns; rows ascending; runs decoded with the harness's frozen character tables; rows with a parity error compared on their space-free character sequence). distinct_nontrivial = distinct streams compared.",
		Assumptions: []string{"decimal page numbers; no row sent twice in one instance; X/28 and M/29 designate the default G0 set; rows of the selected page always hold boxed text or the instance is header-only", "a colour code repeating the colour in force is not generated", "distractor pages before the first instance do not carry the subtitle flag (auto-detection selects the first flagged page)"},
		Cases:       func(tier string) int64 { return tierN(tier, 3000, 1500000) },
		Setup:       func(c *fw.Ctx) error { return ttxSelfTest() },
		Anchors:     []string{"ReadFromTeletext", "teletextPID", "teletextPageBuffer.process", "parseDataUnit", "parsePacketHeader", "parsePacketData", "parsePacket28And29", "updateCharset", "teletextPage.parse", "parseTeletextRow"},
		Run:         c06Run,
	})
}
