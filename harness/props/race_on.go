//go:build race

package props

const raceEnabled = true
