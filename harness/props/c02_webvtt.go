package props

import (
	"bytes"
	"fmt"
	"math/big"
	"regexp"
	"sort"
	"strconv"
	"strings"
	"time"
	"unicode"

	astisub "github.com/asticode/go-astisub"
	"verif/harness/fw"
)

// C02 WebVTT fidelity.

type vttTag struct {
	Name, Annotation string
	Classes          []string
}

func (t vttTag) String() string {
	s := t.Name
	if len(t.Classes) > 0 {
		s += "." + strings.Join(t.Classes, ".")
	}
	if t.Annotation != "" {
		s += " " + t.Annotation
	}
	return s
}

type vttSeg struct {
	Text string
	Tags []vttTag
	TS   int64 // ms, 0 = none
}

type vttLine struct {
	Voice string
	Segs  []vttSeg
}

type vttRegion struct {
	ID                              string
	Lines                           int
	Anchor, Scroll, Viewport, Width string
}

type vttCue struct {
	Start, End                          int64
	ID                                  int
	Comments                            []string
	Region                              string
	Align, Line, Position, Size, Vertic string
	Lines                               []vttLine
}

type vttModel struct {
	TSMap   *[2]int64 // local ms, mpegts
	Styles  [][]string
	Regions []vttRegion
	Cues    []vttCue
}

func vttDenote(m vttModel, withID bool) string { return vttDenoteX(m, withID, false) }

// vttCueLines keeps the cue lines of a denotation (timing, settings, comments, voices, runs)
func vttCueLines(d string) string {
	var out []string
	for _, l := range strings.Split(d, "\n") {
		if strings.HasPrefix(l, "cue ") || strings.HasPrefix(l, "  | ") {
			out = append(out, l)
		}
	}
	return strings.Join(out, "\n")
}

// vttDenoteX with dropSpace leaves white-space characters out of the text (used for renderings that put white space
// of their own between an inline timestamp and the tag that follows it)
func vttDenoteX(m vttModel, withID, dropSpace bool) string {
	var b strings.Builder
	if m.TSMap != nil {
		fmt.Fprintf(&b, "tsmap local=%d mpegts=%d\n", m.TSMap[0], m.TSMap[1])
	}
	for _, blk := range m.Styles {
		for _, l := range blk {
			fmt.Fprintf(&b, "style %q\n", l)
		}
	}
	rs := append([]vttRegion(nil), m.Regions...)
	sort.Slice(rs, func(i, j int) bool { return rs[i].ID < rs[j].ID })
	for _, r := range rs {
		fmt.Fprintf(&b, "region %+v\n", r)
	}
	for k, c := range m.Cues {
		fmt.Fprintf(&b, "cue %d: %d-%d", k, c.Start, c.End)
		if withID && c.ID != 0 {
			fmt.Fprintf(&b, " #%d", c.ID)
		}
		fmt.Fprintf(&b, " comments=%q region=%q align=%q line=%q position=%q size=%q vertical=%q\n", c.Comments, c.Region, c.Align, c.Line, c.Position, c.Size, c.Vertic)
		for _, l := range c.Lines {
			fmt.Fprintf(&b, "  | voice=%q ", l.Voice)
			for _, s := range l.Segs {
				var ts []string
				for _, t := range s.Tags {
					ts = append(ts, t.String())
				}
				attr := strings.Join(ts, ">")
				for _, ch := range s.Text {
					if dropSpace && unicode.IsSpace(ch) {
						continue
					}
					fmt.Fprintf(&b, "%q[%s@%d] ", ch, attr, s.TS)
				}
			}
			b.WriteString("\n")
		}
	}
	return b.String()
}

var vttTagPool = []vttTag{
	{Name: "b"}, {Name: "i"}, {Name: "u"}, {Name: "c"}, {Name: "c", Classes: []string{"red"}}, {Name: "c", Classes: []string{"blue"}},
	{Name: "c", Classes: []string{"yellow", "bg_blue"}}, {Name: "lang", Annotation: "en"}, {Name: "lang", Annotation: "fr-CA"},
	{Name: "ruby"}, {Name: "rt"}, {Name: "b", Classes: []string{"loud"}}, {Name: "i", Classes: []string{"x1", "y2", "z3"}},
	// classes and an annotation on the same tag
	{Name: "lang", Classes: []string{"formal"}, Annotation: "en-GB"}, {Name: "c", Classes: []string{"speakerOne", "Loud"}}, {Name: "lang", Classes: []string{"Formal"}, Annotation: "en-GB"}, {Name: "lang", Classes: []string{"a", "b"}, Annotation: "de"},
}

func vttGenModel(r *fw.Rand, forWriter bool) vttModel {
	var m vttModel
	if r.P(1, 3) {
		m.TSMap = &[2]int64{genTimeMs(r, 100), r.I64n(1 << 33)}
		if r.P(1, 3) {
			// the maps that packagers put on every segment: the identity, or both clocks at the same instant
			m.TSMap = fw.Pick(r, []*[2]int64{{0, 0}, {10000, 900000}, {1000, 90000}, {0, 900000}})
		}
	}
	for k := 0; k < r.Intn(3); k++ {
		blk := []string{fw.Pick(r, []string{"::cue {", "::cue(b) {", "::cue(.red) {"})}
		for j := 0; j < r.Range(1, 3); j++ {
			blk = append(blk, fw.Pick(r, []string{"color: red;", "background-image: linear-gradient(to bottom, dimgray, lightgray);", "font-size: 120%;"}))
		}
		blk = append(blk, "}")
		m.Styles = append(m.Styles, blk)
	}
	if !forWriter && r.P(1, 8) {
		// a STYLE block without any CSS (denotes nothing), somewhere among the others
		k := r.Intn(len(m.Styles) + 1)
		m.Styles = append(m.Styles[:k:k], append([][]string{{}}, m.Styles[k:]...)...)
	}
	for k := 0; k < r.Intn(4); k++ {
		rg := vttRegion{ID: fmt.Sprintf("r%d", k)}
		if r.Bool() {
			rg.Lines = r.Range(1, 9)
		}
		if r.Bool() {
			rg.Anchor = fw.Pick(r, []string{"0%,100%", "50%,50%"})
		}
		if r.Bool() {
			rg.Scroll = "up"
		}
		if r.Bool() {
			rg.Viewport = fw.Pick(r, []string{"10%,90%", "0%,0%"})
		}
		if r.Bool() {
			rg.Width = fw.Pick(r, []string{"40%", "100%"})
		}
		m.Regions = append(m.Regions, rg)
	}
	n := r.Intn(7)
	for k := 0; k < n; k++ {
		s := genTimeMs(r, 100)
		e := s + r.I64n(10000)
		if e >= 100*3600000 {
			e = 100*3600000 - 1
		}
		if k > 0 && r.P(1, 8) {
			s, e = m.Cues[k-1].Start, m.Cues[k-1].End // two cues shown over the same interval
		}
		c := vttCue{Start: s, End: e, ID: k + 1}
		if r.P(1, 6) {
			c.ID = r.Range(1, 99999)
			if r.P(1, 3) {
				c.ID = fw.Pick(r, []int{2147483647, 2147483648, 4294967296, 1700000000000}) + k // counters and time stamps used as identifiers
			}
		}
		for j := 0; j < r.Intn(3)*r.Intn(2); j++ {
			c.Comments = append(c.Comments, genText(r, textOpts{amp: true, gt: false, maxWords: 4}))
		}
		if len(m.Regions) > 0 && r.P(1, 3) {
			c.Region = m.Regions[r.Intn(len(m.Regions))].ID
		}
		if r.P(1, 3) {
			c.Align = fw.Pick(r, []string{"left", "center", "right", "start", "end"})
		}
		if r.P(1, 3) {
			c.Line = fw.Pick(r, []string{"0", "-1", "50%", "84%,end"})
		}
		if r.P(1, 3) {
			c.Position = fw.Pick(r, []string{"10%", "50%,line-left"})
		}
		if r.P(1, 3) {
			c.Size = fw.Pick(r, []string{"35%", "100%"})
		}
		if r.P(1, 5) {
			c.Vertic = fw.Pick(r, []string{"rl", "lr"})
		}
		// lines: a random walk on the tag stack, proper nesting; carried across lines
		var stack []vttTag
		for l := 0; l < r.Range(1, 3); l++ {
			line := vttLine{}
			if r.P(1, 4) {
				line.Voice = fw.Pick(r, []string{"Bob", "Esme Mrs Jones", "中文", "Ünï Cöde", "Tom & Jerry", "R&D", "O'Neil \"Mac\""})
			}
			txt := genText(r, textOpts{amp: true, lt: true, gt: true, nbsp: true, braces: true, comma: true, ampEntity: true, bsN: true, maxWords: 5})
			pieces := splitRuns(r, txt, r.Range(1, 4))
			// a text line that begins like a block of another kind: inside a cue it is text all the same
			keyword := r.P(1, 12)
			if keyword {
				line.Voice, stack = "", nil
				pieces[0] = fw.Pick(r, []string{"NOTE to self:", "NOTES", "NOTEBOOK", "STYLE", "STYLED", "STYLE ::cue {", "Region: west", "Regional", "X-TIMESTAMP-MAP=LOCAL:00:00:00.000,MPEGTS:0"}) + " " + pieces[0]
			}
			tsOn := false
			var ts int64
			for pi, p := range pieces {
				if !(forWriter && false) {
					// change the stack between segments
					if (pi > 0 || r.Bool()) && !(keyword && pi == 0) {
						for len(stack) > 0 && r.P(1, 2) {
							stack = stack[:len(stack)-1]
						}
						for len(stack) < 3 && r.P(1, 3) {
							stack = append(stack, fw.Pick(r, vttTagPool))
						}
					}
				}
				seg := vttSeg{Text: p, Tags: append([]vttTag(nil), stack...)}
				if r.P(1, 5) {
					tsOn = true
				}
				if tsOn && pi > 0 {
					// round 13: one later timestamp in four repeats the one before it (two runs from the same instant)
					if ts == 0 || !r.P(1, 4) {
						ts += int64(r.Range(1, 5000))
					}
					seg.TS = s + ts
					if seg.TS <= 0 {
						seg.TS = 1
					}
				}
				line.Segs = append(line.Segs, seg)
			}
			c.Lines = append(c.Lines, line)
			if r.Bool() {
				stack = nil // closed at the end of the line
			}
		}
		if forWriter {
			// the writer closes every tag at the end of a line: model stacks are per line there anyway
		}
		m.Cues = append(m.Cues, c)
	}
	return m
}

type vttRender struct {
	eol                 string
	bom                 bool
	idKind              int // 0 numeric, 1 absent, 2 non-numeric
	shortTime           bool
	tabs                bool
	header              string
	mapFirst            bool
	tsBeforeTags        bool
	tsSpace             bool // with tsBeforeTags: a space between the timestamp and the opening tags (text is then compared without white space)
	closeVoice          bool
	noteBeforeRegions   bool
	escAll              bool
	regionsBeforeStyles bool
	blankInStyle        bool
	idMix               uint64
	voiceClass          bool
	ownLine             bool
}

func (o vttRender) String() string {
	return fmt.Sprintf("eol=%q bom=%v id=%d short=%v tabs=%v header=%q mapfirst=%v tsBeforeTags=%v tsSpace=%v closeVoice=%v esc=%v", o.eol, o.bom, o.idKind, o.shortTime, o.tabs, o.header, o.mapFirst, o.tsBeforeTags, o.tsSpace, o.closeVoice, o.escAll)
}

// idKindOf gives the identifier kind of cue k: 0 numeric, 1 absent, 2 non-numeric (idKind 3 = mixed per cue)
func (o vttRender) idKindOf(k int) int {
	if o.idKind != 3 {
		return o.idKind
	}
	return int(fw.Mix(o.idMix, uint64(k)) % 3)
}

func vttGenRender(r *fw.Rand) vttRender {
	return vttRender{eol: fw.Pick(r, []string{"\n", "\r\n", "\r"}), bom: r.P(1, 3), idKind: fw.Pick(r, []int{0, 3, 3, 1, 2}), idMix: r.U64(), shortTime: r.Bool(), tabs: r.P(1, 3),
		header: fw.Pick(r, []string{"", "", " - Some title", "\ttitle"}), mapFirst: r.Bool(), tsBeforeTags: r.Bool(), tsSpace: r.P(1, 4), closeVoice: r.Bool(), noteBeforeRegions: r.P(1, 4), escAll: r.Bool(), regionsBeforeStyles: r.Bool(), blankInStyle: r.P(1, 4), voiceClass: r.P(1, 3), ownLine: r.P(1, 3)}
}

func vttFmtTime(msv int64, short bool) string {
	h, m, s, f := msv/3600000, msv/60000%60, msv/1000%60, msv%1000
	if short && h == 0 {
		return fmt.Sprintf("%02d:%02d.%03d", m, s, f)
	}
	return fmt.Sprintf("%02d:%02d:%02d.%03d", h, m, s, f)
}

func vttEscape(s, following string, all bool) string {
	var b strings.Builder
	rs := []rune(s)
	for i, c := range rs {
		// (a window of what follows is enough for the look-ahead; the whole rest would make long lines quadratic)
		end := i + 12
		if end > len(rs) {
			end = len(rs)
		}
		rest := string(rs[i:end])
		if end == len(rs) {
			rest += trunc(following, 12)
		}
		switch {
		case c == '&':
			if all || strings.HasPrefix(rest, "&amp;") || strings.HasPrefix(rest, "&lt;") || strings.HasPrefix(rest, "&nbsp;") {
				b.WriteString("&amp;")
			} else {
				b.WriteRune(c)
			}
		case c == '<':
			// raw only before a space or a tab: '<' + digit could be read as an inline timestamp
			safe := i+1 < len(rs) && (rs[i+1] == ' ' || rs[i+1] == '\t')
			if all || !safe {
				b.WriteString("&lt;")
			} else {
				b.WriteRune(c)
			}
		case c == ' ':
			if all {
				b.WriteString("&nbsp;")
			} else {
				b.WriteRune(c)
			}
		default:
			b.WriteRune(c)
		}
	}
	return b.String()
}

func vttTagsEqual(a, b vttTag) bool { return a.String() == b.String() }

func vttRenderDoc(m vttModel, o vttRender, r *fw.Rand) []byte {
	var b strings.Builder
	if o.bom {
		b.WriteString("\xef\xbb\xbf")
	}
	b.WriteString("WEBVTT" + o.header + o.eol)
	if m.TSMap != nil {
		l, t := "LOCAL:"+vttFmtTime(m.TSMap[0], false), "MPEGTS:"+strconv.FormatInt(m.TSMap[1], 10)
		if o.mapFirst {
			b.WriteString("X-TIMESTAMP-MAP=" + t + "," + l + o.eol)
		} else {
			b.WriteString("X-TIMESTAMP-MAP=" + l + "," + t + o.eol)
		}
	}
	b.WriteString(o.eol)
	styles := func() {
		for _, blk := range m.Styles {
			b.WriteString("STYLE" + o.eol)
			for li, l := range blk {
				if li == 2 && o.blankInStyle {
					b.WriteString(o.eol) // a blank line inside an open block does not end it
				}
				b.WriteString(l + o.eol)
			}
			b.WriteString(o.eol)
		}
	}
	regions := func() {
		if len(m.Regions) == 0 {
			return
		}
		if o.noteBeforeRegions {
			b.WriteString("NOTE regions follow" + o.eol + o.eol)
		}
		for _, rg := range m.Regions {
			parts := []string{"id=" + rg.ID}
			if rg.Lines != 0 {
				parts = append(parts, "lines="+strconv.Itoa(rg.Lines))
			}
			if rg.Anchor != "" {
				parts = append(parts, "regionanchor="+rg.Anchor)
			}
			if rg.Scroll != "" {
				parts = append(parts, "scroll="+rg.Scroll)
			}
			if rg.Viewport != "" {
				parts = append(parts, "viewportanchor="+rg.Viewport)
			}
			if rg.Width != "" {
				parts = append(parts, "width="+rg.Width)
			}
			fw.Shuffle(r, parts)
			b.WriteString("Region: " + strings.Join(parts, " ") + o.eol)
		}
		b.WriteString(o.eol)
	}
	if o.regionsBeforeStyles {
		regions()
		styles()
	} else {
		styles()
		regions()
	}
	for k, c := range m.Cues {
		if len(c.Comments) > 0 {
			b.WriteString("NOTE " + c.Comments[0] + o.eol)
			for _, cm := range c.Comments[1:] {
				b.WriteString(cm + o.eol)
			}
			b.WriteString(o.eol)
		}
		switch o.idKindOf(k) {
		case 0:
			b.WriteString(strconv.Itoa(c.ID) + o.eol)
		case 2:
			b.WriteString(fw.Pick(r, []string{"intro", "cue-7b", "x y"}) + o.eol)
		}
		b.WriteString(vttFmtTime(c.Start, o.shortTime) + " --> " + vttFmtTime(c.End, o.shortTime))
		var set []string
		add := func(k, v string) {
			if v != "" {
				set = append(set, k+":"+v)
			}
		}
		add("align", c.Align)
		add("line", c.Line)
		add("position", c.Position)
		add("region", c.Region)
		add("size", c.Size)
		add("vertical", c.Vertic)
		fw.Shuffle(r, set)
		for _, s := range set {
			if o.tabs {
				b.WriteString("\t" + s)
			} else {
				b.WriteString(" " + s)
			}
		}
		b.WriteString(o.eol)
		var stack []vttTag
		closeTo := func(n int) {
			for i := len(stack) - 1; i >= n; i-- {
				b.WriteString("</" + stack[i].Name + ">")
			}
			stack = stack[:n]
		}
		commonWith := func(tags []vttTag) int {
			common := 0
			for common < len(stack) && common < len(tags) && vttTagsEqual(stack[common], tags[common]) {
				common++
			}
			return common
		}
		for li, line := range c.Lines {
			if line.Voice != "" {
				if o.voiceClass {
					b.WriteString("<v.loud.fast " + strings.ReplaceAll(line.Voice, "&", "&amp;") + ">") // classes on the voice tag do not change the voice name
				} else {
					b.WriteString("<v " + strings.ReplaceAll(line.Voice, "&", "&amp;") + ">") // a literal & in an annotation is written as a character reference
				}
			}
			for si, seg := range line.Segs {
				following := ""
				for _, ns := range line.Segs[si+1:] {
					following += ns.Text
				}
				common := commonWith(seg.Tags)
				closeTo(common)
				ts := ""
				if seg.TS != 0 {
					ts = "<" + vttFmtTime(seg.TS, o.shortTime) + ">"
				}
				if o.tsBeforeTags {
					b.WriteString(ts)
					if o.tsSpace && ts != "" && len(seg.Tags) > common {
						b.WriteString(" ")
					}
				}
				for _, t := range seg.Tags[common:] {
					b.WriteString("<" + t.String() + ">")
					stack = append(stack, t)
				}
				if !o.tsBeforeTags {
					b.WriteString(ts)
				}
				b.WriteString(vttEscape(seg.Text, following, o.escAll))
			}
			// end of line: tags may stay open (carried to the next line, dropped at the blank line) or be closed here
			if li+1 < len(c.Lines) {
				if r.Bool() {
					closeTo(commonWith(c.Lines[li+1].Segs[0].Tags))
				}
			} else if r.Bool() {
				if o.ownLine && len(stack) > 0 && line.Voice == "" {
					b.WriteString(o.eol) // the closing tags stand on a line of their own: it denotes no text line
				}
				closeTo(0)
			}
			if line.Voice != "" && o.closeVoice && len(stack) == 0 {
				b.WriteString("</v>")
			}
			b.WriteString(o.eol)
		}
		if k < len(m.Cues)-1 || r.Bool() {
			b.WriteString(o.eol)
		}
	}
	return []byte(b.String())
}

// vttProject maps the library's result to the denotation
func vttProject(s *astisub.Subtitles) vttModel {
	var m vttModel
	if s.Metadata != nil && s.Metadata.WebVTTTimestampMap != nil {
		t := s.Metadata.WebVTTTimestampMap
		m.TSMap = &[2]int64{int64(t.Local / time.Millisecond), t.MpegTS}
		// the offset the map describes: MPEGTS ticks of 1/90000 s minus LOCAL (to the nanosecond, truncated)
		if want := time.Duration(new(big.Int).Quo(new(big.Int).Mul(big.NewInt(t.MpegTS), big.NewInt(1e9)), big.NewInt(90000)).Int64()) - t.Local; t.Offset() != want {
			m.TSMap[1] = -t.MpegTS - 1 // make the disagreement visible in the denotation
		}
	}
	var ids []string
	for id := range s.Styles {
		ids = append(ids, id)
	}
	sort.Strings(ids)
	for _, id := range ids {
		if st := s.Styles[id]; st != nil && st.InlineStyle != nil && len(st.InlineStyle.WebVTTStyles) > 0 {
			m.Styles = append(m.Styles, append([]string(nil), st.InlineStyle.WebVTTStyles...))
		}
	}
	for id, rg := range s.Regions {
		v := vttRegion{ID: rg.ID}
		if id != rg.ID {
			v.ID = id + "!=" + rg.ID
		}
		if sa := rg.InlineStyle; sa != nil {
			v.Lines, v.Anchor, v.Scroll, v.Viewport, v.Width = sa.WebVTTLines, sa.WebVTTRegionAnchor, sa.WebVTTScroll, sa.WebVTTViewportAnchor, sa.WebVTTWidth
		}
		m.Regions = append(m.Regions, v)
	}
	for _, it := range s.Items {
		c := vttCue{Start: int64(it.StartAt / time.Millisecond), End: int64(it.EndAt / time.Millisecond), ID: it.Index}
		if it.StartAt%time.Millisecond != 0 || it.EndAt%time.Millisecond != 0 {
			c.Start = -int64(it.StartAt)
		}
		c.Comments = append(c.Comments, it.Comments...)
		if it.Region != nil {
			c.Region = it.Region.ID
			if s.Regions[c.Region] != it.Region {
				c.Region += " (not the defined region object)"
			}
		}
		if sa := it.InlineStyle; sa != nil {
			c.Align, c.Line, c.Position, c.Size, c.Vertic = sa.WebVTTAlign, sa.WebVTTLine, sa.WebVTTPosition, sa.WebVTTSize, sa.WebVTTVertical
		}
		for _, l := range it.Lines {
			line := vttLine{Voice: l.VoiceName}
			for _, li := range l.Items {
				seg := vttSeg{Text: li.Text, TS: int64(li.StartAt / time.Millisecond)}
				if li.InlineStyle != nil {
					for _, t := range li.InlineStyle.WebVTTTags {
						seg.Tags = append(seg.Tags, vttTag{Name: t.Name, Annotation: t.Annotation, Classes: t.Classes})
					}
				}
				line.Segs = append(line.Segs, seg)
			}
			c.Lines = append(c.Lines, line)
		}
		m.Cues = append(m.Cues, c)
	}
	return m
}

func vttBuild(m vttModel, r *fw.Rand) *astisub.Subtitles {
	s := astisub.NewSubtitles()
	if m.TSMap != nil {
		s.Metadata = &astisub.Metadata{WebVTTTimestampMap: &astisub.WebVTTTimestampMap{Local: time.Duration(m.TSMap[0]) * time.Millisecond, MpegTS: m.TSMap[1]}}
	}
	for k, blk := range m.Styles {
		id := fmt.Sprintf("style-%d", k)
		s.Styles[id] = &astisub.Style{ID: id, InlineStyle: &astisub.StyleAttributes{WebVTTStyles: append([]string(nil), blk...)}}
	}
	if r.P(1, 4) {
		s.Styles["zz-no-inline"] = &astisub.Style{ID: "zz-no-inline"}
	}
	for _, rg := range m.Regions {
		reg := &astisub.Region{ID: rg.ID, InlineStyle: &astisub.StyleAttributes{WebVTTLines: rg.Lines, WebVTTRegionAnchor: rg.Anchor, WebVTTScroll: rg.Scroll, WebVTTViewportAnchor: rg.Viewport, WebVTTWidth: rg.Width}}
		if r.P(1, 4) {
			// region attributes supplied by the region's style
			st := &astisub.Style{ID: "region-style-" + rg.ID, InlineStyle: &astisub.StyleAttributes{}}
			if r.Bool() {
				st.InlineStyle.WebVTTLines, reg.InlineStyle.WebVTTLines = rg.Lines, 0
			}
			if r.Bool() {
				st.InlineStyle.WebVTTRegionAnchor, reg.InlineStyle.WebVTTRegionAnchor = rg.Anchor, ""
			}
			if r.Bool() {
				st.InlineStyle.WebVTTScroll, reg.InlineStyle.WebVTTScroll = rg.Scroll, ""
			}
			if r.Bool() {
				st.InlineStyle.WebVTTViewportAnchor, reg.InlineStyle.WebVTTViewportAnchor = rg.Viewport, ""
			}
			if r.Bool() {
				st.InlineStyle.WebVTTWidth, reg.InlineStyle.WebVTTWidth = rg.Width, ""
			}
			reg.Style = st
			s.Styles[st.ID] = st
		}
		s.Regions[rg.ID] = reg
	}
	for _, c := range m.Cues {
		it := &astisub.Item{StartAt: time.Duration(c.Start) * time.Millisecond, EndAt: time.Duration(c.End) * time.Millisecond, Comments: append([]string(nil), c.Comments...), Index: r.Intn(100)}
		it.InlineStyle = &astisub.StyleAttributes{WebVTTAlign: c.Align, WebVTTLine: c.Line, WebVTTPosition: c.Position, WebVTTSize: c.Size, WebVTTVertical: c.Vertic}
		if r.P(1, 4) {
			// some settings come from the cue's style: the writer falls back on them when the inline value is empty
			st := &astisub.Style{ID: fmt.Sprintf("cue-style-%d", len(s.Items)), InlineStyle: &astisub.StyleAttributes{}}
			if r.Bool() {
				st.InlineStyle.WebVTTAlign, it.InlineStyle.WebVTTAlign = c.Align, ""
			}
			if r.Bool() {
				st.InlineStyle.WebVTTLine, it.InlineStyle.WebVTTLine = c.Line, ""
			}
			if r.Bool() {
				st.InlineStyle.WebVTTPosition, it.InlineStyle.WebVTTPosition = c.Position, ""
			}
			if r.Bool() {
				st.InlineStyle.WebVTTSize, it.InlineStyle.WebVTTSize = c.Size, ""
			}
			if r.Bool() {
				st.InlineStyle.WebVTTVertical, it.InlineStyle.WebVTTVertical = c.Vertic, ""
			}
			it.Style = st
			s.Styles[st.ID] = st
		}
		if c.Region != "" {
			it.Region = s.Regions[c.Region]
		}
		for _, l := range c.Lines {
			line := astisub.Line{VoiceName: l.Voice}
			for _, seg := range l.Segs {
				li := astisub.LineItem{Text: seg.Text, StartAt: time.Duration(seg.TS) * time.Millisecond}
				if len(seg.Tags) > 0 {
					li.InlineStyle = &astisub.StyleAttributes{}
					for _, t := range seg.Tags {
						li.InlineStyle.WebVTTTags = append(li.InlineStyle.WebVTTTags, astisub.WebVTTTag{Name: t.Name, Annotation: t.Annotation, Classes: append([]string(nil), t.Classes...)})
					}
				}
				line.Items = append(line.Items, li)
			}
			it.Lines = append(it.Lines, line)
		}
		s.Items = append(s.Items, it)
	}
	return s
}

var (
	vttReTiming = regexp.MustCompile(`^(\d{2,}):(\d\d):(\d\d)\.(\d\d\d) --> (\d{2,}):(\d\d):(\d\d)\.(\d\d\d)((?: [a-z]+:\S+)*)$`)
	vttReTS     = regexp.MustCompile(`^(\d{2,}):(\d\d):(\d\d)\.(\d\d\d)$`)
	vttReMap    = regexp.MustCompile(`^X-TIMESTAMP-MAP=LOCAL:(\d{2,}):(\d\d):(\d\d)\.(\d\d\d),MPEGTS:(\d+)$`)
)

func vttHMS(m []string, k int) int64 {
	n := func(i int) int64 { v, _ := strconv.ParseInt(m[i], 10, 64); return v }
	return n(k)*3600000 + n(k+1)*60000 + n(k+2)*1000 + n(k+3)
}

// vttDecode is the harness's own WebVTT decoder for writer output (LF line ends). It rejects a cue whose region
// is not defined earlier in the file, misnested tags and timing fields out of range.
func vttDecode(b []byte) (vttModel, error) {
	var m vttModel
	s := string(b)
	if strings.Contains(s, "\r") {
		return m, fmt.Errorf("CR in writer output")
	}
	lines := strings.Split(s, "\n")
	if len(lines) == 0 || lines[0] != "WEBVTT" {
		return m, fmt.Errorf("missing WEBVTT header")
	}
	i := 1
	if i < len(lines) && strings.HasPrefix(lines[i], "X-TIMESTAMP-MAP") {
		mm := vttReMap.FindStringSubmatch(lines[i])
		if mm == nil {
			return m, fmt.Errorf("bad timestamp map %q", lines[i])
		}
		v, _ := strconv.ParseInt(mm[5], 10, 64)
		m.TSMap = &[2]int64{vttHMS(mm, 1), v}
		i++
	}
	if i < len(lines) && lines[i] != "" {
		return m, fmt.Errorf("header not followed by a blank line: %q", lines[i])
	}
	defined := map[string]bool{}
	var pendingComments []string
	for i < len(lines) {
		if lines[i] == "" {
			i++
			continue
		}
		// a block = lines up to the next blank line
		j := i
		for j < len(lines) && lines[j] != "" {
			j++
		}
		blk := lines[i:j]
		i = j
		switch {
		case blk[0] == "STYLE":
			m.Styles = append(m.Styles, append([]string(nil), blk[1:]...))
		case strings.HasPrefix(blk[0], "Region: "):
			for _, l := range blk {
				if !strings.HasPrefix(l, "Region: ") {
					return m, fmt.Errorf("unexpected line in region block: %q", l)
				}
				rg := vttRegion{}
				for _, kv := range strings.Split(strings.TrimPrefix(l, "Region: "), " ") {
					p := strings.SplitN(kv, "=", 2)
					if len(p) != 2 {
						return m, fmt.Errorf("bad region setting %q", kv)
					}
					switch p[0] {
					case "id":
						rg.ID = p[1]
					case "lines":
						rg.Lines, _ = strconv.Atoi(p[1])
					case "regionanchor":
						rg.Anchor = p[1]
					case "scroll":
						rg.Scroll = p[1]
					case "viewportanchor":
						rg.Viewport = p[1]
					case "width":
						rg.Width = p[1]
					default:
						return m, fmt.Errorf("unknown region setting %q", kv)
					}
				}
				defined[rg.ID] = true
				m.Regions = append(m.Regions, rg)
			}
		case strings.HasPrefix(blk[0], "NOTE "):
			pendingComments = append(pendingComments, strings.TrimPrefix(blk[0], "NOTE "))
			pendingComments = append(pendingComments, blk[1:]...)
		default:
			c := vttCue{Comments: pendingComments}
			pendingComments = nil
			k := 0
			if !strings.Contains(blk[0], "-->") {
				id, err := strconv.Atoi(blk[0])
				if err != nil {
					return m, fmt.Errorf("cue identifier %q is not a number", blk[0])
				}
				c.ID = id
				k = 1
			}
			if k >= len(blk) {
				return m, fmt.Errorf("cue block without timing line")
			}
			tm := vttReTiming.FindStringSubmatch(blk[k])
			if tm == nil {
				return m, fmt.Errorf("bad timing line %q", blk[k])
			}
			for _, f := range []int{2, 3, 6, 7} {
				if v, _ := strconv.Atoi(tm[f]); v >= 60 {
					return m, fmt.Errorf("timing field out of range in %q", blk[k])
				}
			}
			c.Start, c.End = vttHMS(tm, 1), vttHMS(tm, 5)
			for _, kv := range strings.Fields(tm[9]) {
				p := strings.SplitN(kv, ":", 2)
				switch p[0] {
				case "align":
					c.Align = p[1]
				case "line":
					c.Line = p[1]
				case "position":
					c.Position = p[1]
				case "size":
					c.Size = p[1]
				case "vertical":
					c.Vertic = p[1]
				case "region":
					if !defined[p[1]] {
						return m, fmt.Errorf("cue references region %q which is not defined earlier in the file", p[1])
					}
					c.Region = p[1]
				default:
					return m, fmt.Errorf("unknown cue setting %q", kv)
				}
			}
			for _, l := range blk[k+1:] {
				line, err := vttDecodeLine(l)
				if err != nil {
					return m, err
				}
				c.Lines = append(c.Lines, line)
			}
			m.Cues = append(m.Cues, c)
		}
	}
	return m, nil
}

func vttDecodeLine(l string) (vttLine, error) {
	var line vttLine
	var stack []vttTag
	var ts int64
	var text strings.Builder
	flush := func() {
		if text.Len() > 0 {
			line.Segs = append(line.Segs, vttSeg{Text: text.String(), Tags: append([]vttTag(nil), stack...), TS: ts})
			text.Reset()
		}
	}
	rest := l
	first := true
	for len(rest) > 0 {
		if rest[0] == '<' {
			end := strings.IndexByte(rest, '>')
			if end < 0 {
				return line, fmt.Errorf("unterminated tag in %q", l)
			}
			inner := rest[1:end]
			rest = rest[end+1:]
			switch {
			case vttReTS.MatchString(inner):
				flush()
				ts = vttHMS(vttReTS.FindStringSubmatch(inner), 1)
			case strings.HasPrefix(inner, "/"):
				flush()
				if len(stack) == 0 || stack[len(stack)-1].Name != inner[1:] {
					return line, fmt.Errorf("misnested end tag </%s> in %q", inner[1:], l)
				}
				stack = stack[:len(stack)-1]
			case strings.HasPrefix(inner, "v ") && first:
				// character references in the annotation (decoded in one pass, like in text)
				line.Voice = strings.NewReplacer("&amp;", "&", "&lt;", "<", "&gt;", ">", "&nbsp;", "\u00a0").Replace(inner[2:])
			default:
				flush()
				t := vttTag{}
				head := inner
				if sp := strings.IndexByte(inner, ' '); sp >= 0 {
					head, t.Annotation = inner[:sp], inner[sp+1:]
				}
				parts := strings.Split(head, ".")
				t.Name = parts[0]
				if len(parts) > 1 {
					t.Classes = parts[1:]
				}
				if t.Name == "" {
					return line, fmt.Errorf("empty tag name in %q", l)
				}
				stack = append(stack, t)
			}
			first = false
			continue
		}
		first = false
		switch {
		case strings.HasPrefix(rest, "&amp;"):
			text.WriteString("&")
			rest = rest[5:]
		case strings.HasPrefix(rest, "&lt;"):
			text.WriteString("<")
			rest = rest[4:]
		case strings.HasPrefix(rest, "&nbsp;"):
			text.WriteString("\u00a0")
			rest = rest[6:]
		default:
			_, size := decodeRune(rest)
			text.WriteString(rest[:size])
			rest = rest[size:]
		}
	}
	flush()
	if len(stack) != 0 {
		return line, fmt.Errorf("tags left open at the end of line %q", l)
	}
	return line, nil
}

func c02Reader(c *fw.Ctx) fw.Outcome {
	model := vttGenModel(c.R, false)
	for k := 0; k < 4; k++ {
		o := vttGenRender(c.R)
		mixed := c.R.P(1, 6)
		if mixed {
			o.eol = "\n"
		}
		doc := vttRenderDoc(model, o, c.R)
		if mixed {
			doc, o.eol = mixEOL(c.R, doc), "mixed"
		}
		key := fw.HashBytes(doc)
		var got *astisub.Subtitles
		var err error
		if p := guard(func() { got, err = astisub.ReadFromWebVTT(bytes.NewReader(doc)) }); p != "" {
			return fw.Bad(key, string(doc), "reader panicked on rendering {%s}: %s", o, p)
		}
		if err != nil {
			return fw.Bad(key, string(doc), "reader rejected a well-formed document (rendering {%s}): %v\n%q", o, err, trunc(string(doc), 700))
		}
		expModel := model
		expModel.Cues = append([]vttCue(nil), model.Cues...)
		for k := range expModel.Cues {
			if o.idKindOf(k) != 0 {
				expModel.Cues[k].ID = 0 // a cue without a numeric identifier has none
			}
		}
		if o.noteBeforeRegions && len(model.Regions) > 0 && len(model.Cues) > 0 {
			// a comment block is attached to the following cue, whatever stands in between
			expModel.Cues[0].Comments = append([]string{"regions follow"}, model.Cues[0].Comments...)
		}
		drop := o.tsSpace && o.tsBeforeTags
		exp, have := vttDenoteX(expModel, true, drop), vttDenoteX(vttProject(got), true, drop)
		if exp != have {
			return fw.Bad(key, string(doc), "WebVTT reader, rendering {%s}: %s\ndocument: %q", o, firstDiff(exp, have), trunc(string(doc), 1200))
		}
		if k == 3 {
			// what was read is a cue list like any other: written and read again it denotes the same cues (lines, tags,
			// voices, timestamps, settings; identifiers are renumbered and the STYLE blocks merged by the writer)
			var b2 bytes.Buffer
			var again *astisub.Subtitles
			var err2 error
			if p := guard(func() {
				if err2 = got.WriteToWebVTT(&b2); err2 == nil {
					again, err2 = astisub.ReadFromWebVTT(bytes.NewReader(b2.Bytes()))
				}
			}); p != "" || (err2 != nil && len(got.Items) > 0) {
				return fw.Bad(key, string(doc), "WebVTT: the list read from a document cannot be written and read again: %v %s | document: %q", err2, p, trunc(string(doc), 900))
			}
			if again != nil {
				a, b := vttCueLines(vttDenoteX(vttProject(got), false, drop)), vttCueLines(vttDenoteX(vttProject(again), false, drop))
				if a != b {
					return fw.Bad(key, string(doc), "WebVTT: read, written and read again the cues differ: %s | first document: %q | second document: %q", firstDiff(a, b), trunc(string(doc), 700), trunc(b2.String(), 700))
				}
				c.Count("read_write_read_documents", 1)
			}
		}
		c.Feature(fmt.Sprintf("read eol=%q bom=%v id=%d short=%v tabs=%v ts=%v", o.eol, o.bom, o.idKind, o.shortTime, o.tabs, o.tsBeforeTags))
		if c.Idx%4 == 3 {
			if msg := altEntryPoints(c, "vtt", doc, got, nil); msg != "" {
				return fw.Bad(key, string(doc), "%s", msg)
			}
		}
		c.Count("reader_documents", 1)
	}
	return fw.OK(fw.HashString(vttDenote(model, true)), map[string]interface{}{"direction": "read", "model": trunc(vttDenote(model, true), 1500)})
}

func c02Writer(c *fw.Ctx) fw.Outcome {
	model := vttGenModel(c.R, true)
	if len(model.Cues) == 0 {
		return fw.Skip()
	}
	sub := vttBuild(model, c.R)
	var b bytes.Buffer
	var err error
	if p := guard(func() { err = sub.WriteToWebVTT(&b) }); p != "" || err != nil {
		return fw.Bad(fw.HashString(vttDenote(model, false)), nil, "writer failed: %v %s", err, p)
	}
	if c.Idx%4 == 3 {
		if msg := altWrite(c, "vtt", sub, b.Bytes()); msg != "" {
			return fw.Bad(fw.HashBytes(b.Bytes()), b.String(), "%s", msg)
		}
	}
	doc := b.Bytes()
	key := fw.HashBytes(doc)
	for k := range model.Cues {
		model.Cues[k].ID = k + 1
	}
	// re-reading merges all STYLE lines into one block
	var all []string
	for _, blk := range model.Styles {
		all = append(all, blk...)
	}
	flat := func(m vttModel) vttModel {
		var l []string
		for _, blk := range m.Styles {
			l = append(l, blk...)
		}
		m.Styles = nil
		if len(l) > 0 {
			m.Styles = [][]string{l}
		}
		return m
	}
	exp := vttDenote(flat(model), true)
	dec, derr := vttDecode(doc)
	if derr != nil {
		return fw.Bad(key, string(doc), "the independent WebVTT decoder rejects the writer's output: %v\n%q", derr, trunc(string(doc), 1200))
	}
	if have := vttDenote(flat(dec), true); have != exp {
		return fw.Bad(key, string(doc), "WebVTT writer -> independent decoder: %s\ndocument: %q", firstDiff(exp, have), trunc(string(doc), 1200))
	}
	var got *astisub.Subtitles
	if p := guard(func() { got, err = astisub.ReadFromWebVTT(bytes.NewReader(doc)) }); p != "" || err != nil {
		return fw.Bad(key, string(doc), "library reader failed on the writer's output: %v %s\n%q", err, p, trunc(string(doc), 1200))
	}
	if have := vttDenote(flat(vttProject(got)), true); have != exp {
		return fw.Bad(key, string(doc), "WebVTT writer -> library reader: %s\ndocument: %q", firstDiff(exp, have), trunc(string(doc), 1200))
	}
	c.Feature(fmt.Sprintf("write cues=%d regions=%d styles=%d map=%v", len(model.Cues), len(model.Regions), len(model.Styles), model.TSMap != nil))
	if c.Idx%4 == 1 {
		// runs coloured by a list that came from TTML: hexadecimal colours are the same colour in either letter case,
		// so the same list with its colours in upper case is written to the same bytes (whatever the writer makes of them)
		palette := []string{"#ff0000", "#00ff00", "#ffff00", "#00ffff", "#ff00ff", "#abcdef", "#0000ff"}
		paint := func(upper bool) []byte {
			k := 0
			for _, it := range sub.Items {
				for li := range it.Lines {
					for ri := range it.Lines[li].Items {
						col := palette[k%len(palette)]
						if upper {
							col = strings.ToUpper(col)
						}
						sa := it.Lines[li].Items[ri].InlineStyle
						if sa == nil {
							sa = &astisub.StyleAttributes{}
							it.Lines[li].Items[ri].InlineStyle = sa
						}
						sa.TTMLColor = &col
						k++
					}
				}
			}
			var b bytes.Buffer
			if p := guard(func() { err = sub.WriteToWebVTT(&b) }); p != "" || err != nil {
				return []byte("writer failed: " + p)
			}
			return b.Bytes()
		}
		lower, upper := paint(false), paint(true)
		if !bytes.Equal(lower, upper) {
			return fw.Bad(key, string(lower), "WebVTT writer: the same list with its run colours written #ff0000-style and #FF0000-style gives different documents: %s", firstDiff(string(lower), string(upper)))
		}
		c.Count("colour_case_pairs", 1)
	}
	c.Count("writer_documents", 1)
	return fw.OK(key, map[string]interface{}{"direction": "write", "document": trunc(string(doc), 500)})
}

func init() {
	n := func(tier string) int64 { return tierN(tier, 4000, 300000) }
	fw.Register(&fw.Property{
		ID:    "C02",
		Level: "exploration",
		Rule: "reader cases: a random ground-truth WebVTT model (0..6 cues with ms times, numeric ids, 0..2-line NOTE comments, 0..3 regions in this library's 'Region: id=.. key=value' form with six attributes, cue settings subsets incl. region references, 0..2 STYLE blocks (also with a blank line inside an open block), optional X-TIMESTAMP-MAP in either key order, per line an optional voice, 1..4 segments with tag stacks of depth 0..3 over b/i/u/c.class[.class]/lang xx/ruby/rt carried across lines, inline timestamps placed before or after the opening tags, one later timestamp in four repeating the one before it) rendered 4 ways (EOL kinds, BOM, hh: optional, id numeric/absent/non-numeric, tabs or spaces before settings, header trailing text, </v> present or not, minimal or full escaping, region/style block order, shuffled settings) and read by the library; the projection must equal the model rune by rune (tag stack and timestamp per rune). " +
			"writer cases: the models built from public types, written, decoded by the harness's own decoder (which rejects a region reference not defined earlier, misnested tags, out-of-range fields) and by the library reader; both must equal the model with ids 1..n. sweep cases: every block of 256 code points (quick: the BMP and one block per other plane; thorough: all 4352 blocks) written as cue text, 32 characters to a cue, and read back unchanged (white space, controls and the markup characters of the format left out). distinct_nontrivial = distinct documents compared.",
		Assumptions: []string{"text lines contain no '-->' and have no white space at the edges (they may begin with NOTE, STYLE, Region: or X-TIMESTAMP-MAP: inside a cue that is text); no white-space-only segment next to a timestamp; once a line has a timestamp every later segment of the line carries its own", "colour (<c.colour> derived from TTMLColor) is not part of the statement and is left unset", "a literal '<' is left raw only before a space or a tab"},
		Cases:       func(tier string) int64 { return 2*n(tier) + sweepBlocks(tier) },
		Anchors:     []string{"ReadFromWebVTT", "parseTextWebVTT", "parseTextWebVTTTextToken", "parseWebVTTTimestampMap", "WriteToWebVTT", "Line.webVTTBytes", "LineItem.webVTTBytes", "WebVTTTag.startTag"},
		Run: func(c *fw.Ctx) fw.Outcome {
			if k := c.Idx - 2*n(c.Tier); k >= 0 {
				return sweepCase(c, k, "webvtt", "<>&",
					func(s *astisub.Subtitles, b *bytes.Buffer) error { return s.WriteToWebVTT(b) },
					func(b []byte) (*astisub.Subtitles, error) { return astisub.ReadFromWebVTT(bytes.NewReader(b)) })
			}
			if c.Idx < n(c.Tier) {
				return c02Reader(c)
			}
			return c02Writer(c)
		},
	})
}

var _ = unicode.IsSpace
