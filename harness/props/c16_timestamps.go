package props

import (
	"bytes"
	"fmt"
	"regexp"
	"sort"
	"strconv"
	"time"

	astisub "github.com/asticode/go-astisub"
	"verif/harness/fw"
)

// C16 Timestamp codec: through the public writers and readers only, batched documents of up to 10 000 instants.

type c16Format struct {
	name    string
	unit    int64 // ns per representable step (0 for STL: frame based)
	fps     int64 // STL only
	maxH    int64 // exclusive bound in hours
	tcp     int64 // STL only: timecode start of programme (ns), added to every boundary in the file
	vttMap  bool  // WebVTT only: the list carries a timestamp map with a non-zero LOCAL
	metaFps int   // STL only: the frame rate named by the metadata when it is not the one the file is written at
	write   func(s astisub.Subtitles, b *bytes.Buffer) error
	read    func(b []byte) (*astisub.Subtitles, error)
	decode  func(b []byte) ([]int64, string) // independent decoder: instants in document order, or a grammar error
}

func c16Floor(f *c16Format, t int64) int64 {
	if f.fps == 0 {
		return t / f.unit * f.unit
	}
	sec := t / 1e9
	frames := (t % 1e9) * f.fps / 1e9
	// the instant a frame number means, as the reader is specified to return it (to within a nanosecond)
	return sec*1e9 + (frames*1e9+f.fps-1)/f.fps
}

var (
	c16ReSRT      = regexp.MustCompile(`(?m)^(\d{2,}):(\d{2}):(\d{2}),(\d{3}) --> (\d{2,}):(\d{2}):(\d{2}),(\d{3})$`)
	c16ReVTT      = regexp.MustCompile(`(?m)^(\d{2,}):(\d{2}):(\d{2})\.(\d{3}) --> (\d{2,}):(\d{2}):(\d{2})\.(\d{3})$`)
	c16ReTTMLp    = regexp.MustCompile(`<p( [^>]*)?>`)
	c16ReTTMLattr = regexp.MustCompile(` (begin|end)="([^"]*)"`)
	c16ReClock    = regexp.MustCompile(`^(\d{2,}):(\d{2}):(\d{2})\.(\d{3})$`)
	c16ReAny      = regexp.MustCompile(`-->`)
)

func c16DecodeText(re *regexp.Regexp, fracUnit int64) func(b []byte) ([]int64, string) {
	return func(b []byte) ([]int64, string) {
		ms := re.FindAllSubmatch(b, -1)
		if n := len(c16ReAny.FindAll(b, -1)); n != len(ms) {
			return nil, fmt.Sprintf("%d timing lines in the document, only %d match the format grammar (two-digit minutes/seconds, exact fraction digits)", n, len(ms))
		}
		var out []int64
		for _, m := range ms {
			for k := 0; k < 2; k++ {
				h, _ := strconv.ParseInt(string(m[1+4*k]), 10, 64)
				mi, _ := strconv.ParseInt(string(m[2+4*k]), 10, 64)
				s, _ := strconv.ParseInt(string(m[3+4*k]), 10, 64)
				fr, _ := strconv.ParseInt(string(m[4+4*k]), 10, 64)
				if mi >= 60 || s >= 60 {
					return nil, fmt.Sprintf("field out of range in %q", m[0])
				}
				out = append(out, h*3600e9+mi*60e9+s*1e9+fr*fracUnit)
			}
		}
		return out, ""
	}
}

// c16DecodeTTML reads begin/end of every <p> whatever the order of the attributes
func c16DecodeTTML(b []byte) ([]int64, string) {
	var out []int64
	for _, p := range c16ReTTMLp.FindAll(b, -1) {
		vals := map[string]string{}
		for _, m := range c16ReTTMLattr.FindAllSubmatch(p, -1) {
			vals[string(m[1])] = string(m[2])
		}
		for _, k := range []string{"begin", "end"} {
			m := c16ReClock.FindStringSubmatch(vals[k])
			if m == nil {
				return nil, fmt.Sprintf("%s=%q of a <p> does not match hh:mm:ss.mmm", k, vals[k])
			}
			h, _ := strconv.ParseInt(m[1], 10, 64)
			mi, _ := strconv.ParseInt(m[2], 10, 64)
			s, _ := strconv.ParseInt(m[3], 10, 64)
			fr, _ := strconv.ParseInt(m[4], 10, 64)
			if mi >= 60 || s >= 60 {
				return nil, fmt.Sprintf("field out of range in %q", vals[k])
			}
			out = append(out, h*3600e9+mi*60e9+s*1e9+fr*1e6)
		}
	}
	return out, ""
}

// c16DecodeSSA uses the harness's Format-driven decoder (column order free)
func c16DecodeSSA(b []byte) ([]int64, string) {
	m, err := ssaDecode(b)
	if err != nil {
		return nil, err.Error()
	}
	var out []int64
	for _, e := range m.Events {
		out = append(out, e.Start*1e7, e.End*1e7)
	}
	return out, ""
}

func c16DecodeSTL(fps int64, maxHours int64) func(b []byte) ([]int64, string) {
	return func(b []byte) ([]int64, string) {
		if len(b) < 1024 || (len(b)-1024)%128 != 0 {
			return nil, fmt.Sprintf("file size %d is not 1024 + 128n", len(b))
		}
		if dfc := string(b[3:11]); dfc != fmt.Sprintf("STL%d.01", fps) {
			return nil, fmt.Sprintf("the file declares disk format %q, the frames are expected at %d fps", dfc, fps)
		}
		var out []int64
		for off := 1024; off < len(b); off += 128 {
			for _, p := range []int{5, 9} {
				h, m, s, f := int64(b[off+p]), int64(b[off+p+1]), int64(b[off+p+2]), int64(b[off+p+3])
				if h >= maxHours || m >= 60 || s >= 60 || f >= fps {
					return nil, fmt.Sprintf("timecode %d:%d:%d:%d out of range at %d fps", h, m, s, f, fps)
				}
				out = append(out, h*3600e9+m*60e9+s*1e9+(f*1e9+fps-1)/fps)
			}
		}
		return out, ""
	}
}

var c16Formats = []*c16Format{
	{name: "srt", unit: 1e6, maxH: 100,
		write:  func(s astisub.Subtitles, b *bytes.Buffer) error { return s.WriteToSRT(b) },
		read:   func(b []byte) (*astisub.Subtitles, error) { return astisub.ReadFromSRT(bytes.NewReader(b)) },
		decode: c16DecodeText(c16ReSRT, 1e6)},
	{name: "webvtt", unit: 1e6, maxH: 100,
		write:  func(s astisub.Subtitles, b *bytes.Buffer) error { return s.WriteToWebVTT(b) },
		read:   func(b []byte) (*astisub.Subtitles, error) { return astisub.ReadFromWebVTT(bytes.NewReader(b)) },
		decode: c16DecodeText(c16ReVTT, 1e6)},
	// a list that carries an X-TIMESTAMP-MAP header (it relates the cue timeline to a transport stream: cue times
	// themselves are written and read as they are)
	{name: "webvtt+map", unit: 1e6, maxH: 100, vttMap: true,
		write:  func(s astisub.Subtitles, b *bytes.Buffer) error { return s.WriteToWebVTT(b) },
		read:   func(b []byte) (*astisub.Subtitles, error) { return astisub.ReadFromWebVTT(bytes.NewReader(b)) },
		decode: c16DecodeText(c16ReVTT, 1e6)},
	{name: "ttml", unit: 1e6, maxH: 100,
		write: func(s astisub.Subtitles, b *bytes.Buffer) error {
			return s.WriteToTTML(b, astisub.WriteToTTMLWithIndentOption(""))
		},
		read:   func(b []byte) (*astisub.Subtitles, error) { return astisub.ReadFromTTML(bytes.NewReader(b)) },
		decode: c16DecodeTTML},
	{name: "ssa", unit: 1e7, maxH: 100,
		write:  func(s astisub.Subtitles, b *bytes.Buffer) error { return s.WriteToSSA(b) },
		read:   func(b []byte) (*astisub.Subtitles, error) { return astisub.ReadFromSSA(bytes.NewReader(b)) },
		decode: c16DecodeSSA},
	{name: "stl25", fps: 25, maxH: 24,
		write: func(s astisub.Subtitles, b *bytes.Buffer) error { return s.WriteToSTL(b) },
		read: func(b []byte) (*astisub.Subtitles, error) {
			return astisub.ReadFromSTL(bytes.NewReader(b), astisub.STLOptions{})
		},
		decode: c16DecodeSTL(25, 24)},
	{name: "stl30", fps: 30, maxH: 24,
		write: func(s astisub.Subtitles, b *bytes.Buffer) error { return s.WriteToSTL(b) },
		read: func(b []byte) (*astisub.Subtitles, error) {
			return astisub.ReadFromSTL(bytes.NewReader(b), astisub.STLOptions{})
		},
		decode: c16DecodeSTL(30, 24)},
	// with a programme start timecode: the file carries boundary + TCP (possibly beyond 24:00:00:00), the reader subtracts it
	{name: "stl25+tcp", fps: 25, maxH: 24, tcp: (9*3600+59*60+58)*1000000000 + 12*40000000,
		write: func(s astisub.Subtitles, b *bytes.Buffer) error { return s.WriteToSTL(b) },
		read: func(b []byte) (*astisub.Subtitles, error) {
			return astisub.ReadFromSTL(bytes.NewReader(b), astisub.STLOptions{})
		},
		decode: c16DecodeSTL(25, 256)},
	{name: "stl30+tcp", fps: 30, maxH: 24, tcp: 23*3600*1000000000 + (7*1000000000+29)/30,
		write: func(s astisub.Subtitles, b *bytes.Buffer) error { return s.WriteToSTL(b) },
		read: func(b []byte) (*astisub.Subtitles, error) {
			return astisub.ReadFromSTL(bytes.NewReader(b), astisub.STLOptions{})
		},
		decode: c16DecodeSTL(30, 256)},
	// lists whose metadata comes from another format and names a frame rate for which no disk format exists: the
	// file is written at the default rate, and whatever rate it declares is the one its frame numbers count in
	{name: "stl-meta24", fps: 25, metaFps: 24, maxH: 24,
		write: func(s astisub.Subtitles, b *bytes.Buffer) error { return s.WriteToSTL(b) },
		read: func(b []byte) (*astisub.Subtitles, error) {
			return astisub.ReadFromSTL(bytes.NewReader(b), astisub.STLOptions{})
		},
		decode: c16DecodeSTL(25, 24)},
	{name: "stl-meta60", fps: 25, metaFps: 60, maxH: 24,
		write: func(s astisub.Subtitles, b *bytes.Buffer) error { return s.WriteToSTL(b) },
		read: func(b []byte) (*astisub.Subtitles, error) {
			return astisub.ReadFromSTL(bytes.NewReader(b), astisub.STLOptions{})
		},
		decode: c16DecodeSTL(25, 24)},
}

const c16Doc = 10000 // instants per document

// instant families; every family is split in documents of c16Doc instants
const (
	c16MsSweep   = iota // k ms for k in [0, 24h) with a stride
	c16SecBounds        // every second boundary of [0,24h): s-1ns, s, s+1ns
	c16StepSweep        // every step boundary (10 ms resp. frame) +-1ns with a stride
	c16Hours            // hours {0,1,9,10,23,24,99} x every minute boundary and the seconds around them, +-1ns, x.59.59.999
	c16Random           // random nanosecond instants
	c16Families
)

func c16Stride(tier string) int64 {
	if tier == "thorough" {
		return 1
	}
	return 997
}

// number of documents of one family for one format
func c16Docs(f *c16Format, fam int, tier string) int64 {
	day := int64(86400)
	switch fam {
	case c16MsSweep:
		return (day*1000/c16Stride(tier) + c16Doc - 1) / c16Doc
	case c16SecBounds:
		return (day*3 + c16Doc - 1) / c16Doc
	case c16StepSweep:
		steps := day * 100
		if f.fps > 0 {
			steps = day * f.fps
		} else if f.unit == 1e6 {
			return 0 // covered by the ms sweep
		}
		return (steps/c16Stride(tier)*3 + c16Doc - 1) / c16Doc
	case c16Hours:
		return 1
	case c16Random:
		return tierN(tier, 2, 84) // x 10 000 instants x 6 formats = 120 k / 5 M
	}
	return 0
}

func c16Instants(f *c16Format, fam int, doc int64, tier string, r *fw.Rand) []int64 {
	var out []int64
	maxT := f.maxH * 3600e9
	add := func(t int64) {
		if t >= 0 && t < maxT {
			out = append(out, t)
		}
	}
	switch fam {
	case c16MsSweep:
		st := c16Stride(tier)
		for k := doc * c16Doc; k < (doc+1)*c16Doc; k++ {
			if ms := k * st; ms < 86400000 {
				add(ms * 1e6)
			}
		}
	case c16SecBounds:
		for k := doc * c16Doc; k < (doc+1)*c16Doc; k++ {
			s := k / 3
			if s < 86400 {
				add(s*1e9 + k%3 - 1)
			}
		}
	case c16StepSweep:
		st := c16Stride(tier)
		for k := doc * c16Doc; k < (doc+1)*c16Doc; k++ {
			j := k / 3 * st
			var t int64
			if f.fps > 0 {
				if j >= 86400*f.fps {
					break
				}
				t = j/f.fps*1e9 + (j%f.fps*1e9+f.fps-1)/f.fps // first ns inside frame j
			} else {
				if j >= 86400*100 {
					break
				}
				t = j * f.unit
			}
			add(t + k%3 - 1)
		}
	case c16Hours:
		for _, h := range []int64{0, 1, 9, 10, 23, 24, 99} {
			for m := int64(0); m < 60; m++ {
				base := h*3600e9 + m*60e9
				for _, s := range []int64{0, 1, 9, 10, 58, 59} {
					for _, d := range []int64{-1, 0, 1, 999e6, 999e6 + 999999, 500e6} {
						add(base + s*1e9 + d)
					}
				}
			}
		}
		sort.Slice(out, func(i, j int) bool { return out[i] < out[j] })
	case c16Random:
		for k := 0; k < c16Doc; k++ {
			add(r.I64n(maxT))
		}
		sort.Slice(out, func(i, j int) bool { return out[i] < out[j] })
	}
	if len(out)%2 == 1 {
		out = append(out, out[len(out)-1])
	}
	return out
}

type c16Case struct {
	f   *c16Format
	fam int
	doc int64
}

func c16Locate(idx int64, tier string) (c16Case, bool) {
	for _, f := range c16Formats {
		for fam := 0; fam < c16Families; fam++ {
			n := c16Docs(f, fam, tier)
			if idx < n {
				return c16Case{f, fam, idx}, true
			}
			idx -= n
		}
	}
	return c16Case{}, false
}

func c16Total(tier string) (n int64) {
	for _, f := range c16Formats {
		for fam := 0; fam < c16Families; fam++ {
			n += c16Docs(f, fam, tier)
		}
	}
	return
}

func c16Run(c *fw.Ctx) fw.Outcome {
	cs, ok := c16Locate(c.Idx, c.Tier)
	if !ok {
		return fw.Skip()
	}
	f := cs.f
	ins := c16Instants(f, cs.fam, cs.doc, c.Tier, c.R)
	if len(ins) == 0 {
		return fw.Skip()
	}
	famName := []string{"ms-sweep", "second-boundaries+-1ns", "step-boundaries+-1ns", "hour-carries", "random-ns"}[cs.fam]
	key := fw.Mix(fw.HashString(f.name), uint64(cs.fam), uint64(cs.doc), uint64(ins[0]), uint64(ins[len(ins)-1]))
	desc := fmt.Sprintf("%s %s doc %d (%d instants from %d to %d ns)", f.name, famName, cs.doc, len(ins), ins[0], ins[len(ins)-1])
	sub := astisub.NewSubtitles()
	if f.fps > 0 {
		cd := time.Date(2020, 1, 2, 0, 0, 0, 0, time.UTC)
		mf := int(f.fps)
		if f.metaFps != 0 {
			mf = f.metaFps
		}
		sub.Metadata = &astisub.Metadata{Framerate: mf, STLDisplayStandardCode: "0", STLCreationDate: &cd, STLRevisionDate: &cd, STLTimecodeStartOfProgramme: time.Duration(f.tcp)}
		if cs.doc%3 == 1 {
			// descriptive fields as another format's reader leaves them: letters beyond ASCII, longer than the GSI columns
			sub.Metadata.Title, sub.Metadata.STLPublisher, sub.Metadata.STLEditorName = "Les Misérables – épisode n° 12 (version française)", "Télévision", "Łukasz"
		}
	}
	if f.vttMap {
		sub.Metadata = &astisub.Metadata{WebVTTTimestampMap: &astisub.WebVTTTimestampMap{Local: 3723*time.Second + 4*time.Millisecond, MpegTS: 900000}}
	}
	line := []astisub.Line{{Items: []astisub.LineItem{{Text: "x"}}}}
	for k := 0; k+1 < len(ins); k += 2 {
		sub.Items = append(sub.Items, &astisub.Item{StartAt: time.Duration(ins[k]), EndAt: time.Duration(ins[k+1]), Lines: line})
	}
	var b1, b2 bytes.Buffer
	var err error
	var back *astisub.Subtitles
	if p := guard(func() { err = f.write(*sub, &b1) }); p != "" || err != nil {
		return fw.Bad(key, desc, "%s: writer failed: %v %s", desc, err, p)
	}
	// (0) rendering a boundary does not change it: the list still holds the instants it was given
	for k, it := range sub.Items {
		if int64(it.StartAt) != ins[2*k] || int64(it.EndAt) != ins[2*k+1] {
			return fw.Bad(key, desc, "%s: after writing, cue %d of the list holds [%d,%d) ns instead of the [%d,%d) ns it was given: the writer rounds the caller's cues in place, a later write to a finer format then renders other timestamps", desc, k, it.StartAt, it.EndAt, ins[2*k], ins[2*k+1])
		}
	}
	// (1) grammar + (2) the rendering is the latest representable instant not after the boundary
	dec, gerr := f.decode(b1.Bytes())
	if gerr != "" {
		return fw.Bad(key, desc, "%s: %s", desc, gerr)
	}
	if len(dec) != len(ins) {
		return fw.Bad(key, desc, "%s: %d timestamps decoded from the output, %d boundaries written", desc, len(dec), len(ins))
	}
	for k, t := range ins {
		if want := c16Floor(f, t+f.tcp); dec[k] != want {
			return fw.Bad(key, desc, "%s: instant %d ns (+ programme start %d ns) is rendered as %d ns, the latest representable instant not after it is %d ns", f.name, t, f.tcp, dec[k], want)
		}
		if k > 0 && ins[k] >= ins[k-1] && dec[k] < dec[k-1] {
			return fw.Bad(key, desc, "%s: later instant %d renders earlier (%d) than instant %d (%d)", f.name, ins[k], dec[k], ins[k-1], dec[k-1])
		}
	}
	// (3) the same format's reader maps the rendering back to that instant
	if p := guard(func() { back, err = f.read(b1.Bytes()) }); p != "" || err != nil {
		return fw.Bad(key, desc, "%s: reader failed on the writer's output: %v %s", desc, err, p)
	}
	if len(back.Items)*2 != len(ins) {
		return fw.Bad(key, desc, "%s: %d cues read back, %d written", desc, len(back.Items), len(ins)/2)
	}
	tol := int64(0)
	if f.fps > 0 {
		tol = 1
		if f.tcp > 0 {
			tol = 2 // two roundings to the nanosecond: the boundary and the programme start
		}
	}
	for k, it := range back.Items {
		for j, g := range []int64{int64(it.StartAt), int64(it.EndAt)} {
			want := c16Floor(f, ins[2*k+j]+f.tcp) - f.tcp
			if g < want-tol || g > want+tol {
				return fw.Bad(key, desc, "%s: instant %d ns written, read back as %d ns, expected %d ns", f.name, ins[2*k+j], g, want)
			}
		}
	}
	// (4) a second write is identical to the first
	if p := guard(func() { err = f.write(*back, &b2) }); p != "" || err != nil {
		return fw.Bad(key, desc, "%s: second write failed: %v %s", desc, err, p)
	}
	if !bytes.Equal(b1.Bytes(), b2.Bytes()) {
		d2, _ := f.decode(b2.Bytes())
		for k := range dec {
			if k < len(d2) && d2[k] != dec[k] {
				return fw.Bad(key, desc, "%s: instant %d ns: first write renders %d ns, writing the re-read list renders %d ns", f.name, ins[k], dec[k], d2[k])
			}
		}
		return fw.Bad(key, desc, "%s: writing the re-read list gives different bytes (same timestamps)", desc)
	}
	c.Count("instants_"+f.name, int64(len(ins)))
	c.Feature(f.name + " " + famName)
	return fw.OK(key, map[string]interface{}{"format": f.name, "family": famName, "doc": cs.doc, "instants": len(ins), "first_ns": ins[0], "last_ns": ins[len(ins)-1]})
}

func init() {
	fw.Register(&fw.Property{
		ID:    "C16",
		Level: "exploration",
		Rule: "case = one document of up to 10 000 cue boundaries written by the public writer of one of {srt, webvtt, ttml, ssa, stl@25, stl@30, stl@25 with programme start 09:59:58:12, stl@30 with programme start 23:00:00:07}. Oracle per boundary: the rendered field matches a strict grammar regexp (STL: byte ranges), its value decoded by the harness equals floor(instant) at the format's resolution, the same format's reader returns that value (+-1 ns for STL), rewriting the re-read list is byte-identical, and renderings of increasing instants never decrease. " +
			"Families: every k-th millisecond of [0,24h) (k=997 quick, k=1 thorough = exhaustive), every second boundary of the day +-1 ns, every k-th centisecond/frame boundary +-1 ns, hours {0,1,9,10,23,24,99} x all minutes x seconds {0,1,9,10,58,59} x {-1ns,0,+1ns,.5,.999,.999999999}, random ns instants. distinct_nontrivial = distinct documents compared; the number of instants is in events.instants_<format>.",
		Assumptions: []string{"instants in [0,100h) ([0,24h) for STL); observation through WriteTo*/ReadFrom* only", "STL written with display standard 0 (open subtitling) and explicit creation/revision dates so that whole files can be compared"},
		Cases:       c16Total,
		Exhaustive: func(tier string) string {
			if tier == "thorough" {
				return "every millisecond of [0,24h) for all eleven format configurations, every second boundary +-1ns, every centisecond (SSA) and frame (STL 25/30) boundary +-1ns; random family sampled"
			}
			return ""
		},
		Anchors: []string{"formatDuration", "parseDuration", "formatDurationSTLBytes", "parseDurationSTLBytes", "TTMLOutDuration.MarshalText", "TTMLInDuration.UnmarshalText"},
		Run:     c16Run,
	})
}
