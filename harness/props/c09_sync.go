package props

import (
	"fmt"
	"time"

	astisub "github.com/asticode/go-astisub"
	"verif/harness/fw"
)

// C09 Sync (Add): executable specification, exhaustive small grids + random lists + the CLI sub-command.

const c09Pairs = 21 // (s,e) with 0 <= s <= e <= 5

func c09GridLists(tier string) int64 {
	// lists of 0..4 cues (0..5 in the thorough tier), each cue one of the 21 (s<=e) pairs, in any order
	n := int64(1 + 21 + 441 + 9261 + 194481)
	if tier == "thorough" {
		n += 4084101
	}
	return n
}

func c09Pair(k int) (int64, int64) {
	for s := 0; s <= 5; s++ {
		for e := s; e <= 5; e++ {
			if k == 0 {
				return int64(s), int64(e)
			}
			k--
		}
	}
	panic("bad pair")
}

func c09DecodeGrid(idx int64) []tcue {
	var l int
	var count int64 = 1
	for l = 0; idx >= count; l++ {
		idx -= count
		count *= c09Pairs
	}
	cs := make([]tcue, l)
	for i := 0; i < l; i++ {
		s, e := c09Pair(int(idx % c09Pairs))
		idx /= c09Pairs
		cs[i] = tcue{s, e, fmt.Sprintf("t%d", i)}
	}
	return cs
}

type c09Exp struct {
	orig    int
	s, e    int64
	clamped bool
}

func c09Spec(cs []tcue, d int64) (out []c09Exp) {
	for k, c := range cs {
		s, e := c.S+d, c.E+d
		if e <= 0 {
			continue
		}
		x := c09Exp{orig: k, s: s, e: e}
		if s < 0 {
			x.s, x.clamped = 0, true
		}
		out = append(out, x)
	}
	return
}

func c09Build(cs []tcue, styled bool) (*astisub.Subtitles, []string) {
	s := astisub.NewSubtitles()
	var st *astisub.Style
	var rg *astisub.Region
	if styled {
		st = &astisub.Style{ID: "st", InlineStyle: &astisub.StyleAttributes{SRTBold: true}}
		rg = &astisub.Region{ID: "rg", InlineStyle: &astisub.StyleAttributes{WebVTTWidth: "40%"}}
		s.Styles["st"], s.Regions["rg"] = st, rg
	}
	someMetadata(s, len(cs))
	salt := 0
	if len(cs) > 0 {
		salt = int(uint64(cs[0].S+3*cs[len(cs)-1].E+int64(len(cs))) % 16) // which cues are decorated how depends on the list
	}
	snaps := make([]string, len(cs))
	for k, c := range cs {
		it := decorate(textItem(time.Duration(c.S), time.Duration(c.E), c.T), k+salt)
		it.Index = k + 1
		if styled && k%2 == 0 {
			it.Style, it.Region = st, rg
			it.InlineStyle = &astisub.StyleAttributes{WebVTTAlign: "left"}
			it.Lines[0].Items[0].Style = st
		}
		s.Items = append(s.Items, it)
		snaps[k] = snapItem(it)
	}
	return s, snaps
}

// c09Check applies Add(d) to the list and compares with the specification
func c09Check(cs []tcue, d int64, styled bool) string {
	sub, snaps := c09Build(cs, styled)
	ptrs := append([]*astisub.Item(nil), sub.Items...)
	if (len(cs)+int(uint64(d)&3))%4 == 1 {
		if p := guard(func() { prewarm(sub) }); p != "" {
			return p
		}
		if !samePtrs(sub.Items, ptrs) {
			return "prewarm changed the list"
		}
	}
	if p := guard(func() { sub.Add(time.Duration(d)) }); p != "" {
		return p
	}
	exp := c09Spec(cs, d)
	if len(sub.Items) != len(exp) {
		return fmt.Sprintf("Add(%d) on %s: %d cues survive, specification says %d (got %s)", d, fmtCues(cs), len(sub.Items), len(exp), fmtCues(cuesOf(sub.Items)))
	}
	for k, x := range exp {
		it := sub.Items[k]
		if it != ptrs[x.orig] {
			return fmt.Sprintf("Add(%d) on %s: position %d does not hold original cue #%d (identity/order changed)", d, fmtCues(cs), k, x.orig)
		}
		if int64(it.StartAt) != x.s || int64(it.EndAt) != x.e {
			return fmt.Sprintf("Add(%d) on %s: cue #%d is [%d,%d), specification says [%d,%d)", d, fmtCues(cs), x.orig, it.StartAt, it.EndAt, x.s, x.e)
		}
		if snapItem(it) != snaps[x.orig] {
			return fmt.Sprintf("Add(%d) on %s: content of cue #%d changed", d, fmtCues(cs), x.orig)
		}
	}
	// Inverse law on cues that were neither clamped nor removed (and have a positive end, so -d does not kill them)
	if p := guard(func() { sub.Add(time.Duration(-d)) }); p != "" {
		return p
	}
	pos := map[*astisub.Item]int{}
	for k, it := range sub.Items {
		pos[it] = k
	}
	for _, x := range exp {
		c := cs[x.orig]
		if x.clamped || c.E <= 0 || c.S <= 0 {
			continue
		}
		k, ok := pos[ptrs[x.orig]]
		if !ok {
			return fmt.Sprintf("Add(%d) then Add(%d) on %s: cue #%d (not clamped, not removed) disappeared", d, -d, fmtCues(cs), x.orig)
		}
		if it := sub.Items[k]; int64(it.StartAt) != c.S || int64(it.EndAt) != c.E {
			return fmt.Sprintf("Add(%d) then Add(%d) on %s: cue #%d is [%d,%d) instead of [%d,%d)", d, -d, fmtCues(cs), x.orig, it.StartAt, it.EndAt, c.S, c.E)
		}
	}
	return ""
}

func c09Random(r *fw.Rand) ([]tcue, int64) {
	n := listSize(r, 40)
	unit := fw.Pick(r, []int64{1, 1000, 1000000, 1000000000})
	span := fw.Pick(r, []int64{10, 1000, 86400})
	neg := r.P(1, 4)
	cs := make([]tcue, n)
	var maxEnd int64
	for i := range cs {
		s := r.I64n(span) * unit
		if r.P(1, 4) {
			s += r.I64n(unit)
		}
		e := s + r.I64n(span/2+1)*unit
		if r.P(1, 5) {
			e = s
		}
		if neg {
			s, e = s-span*unit/3, e-span*unit/3 // some cues start (and end) before zero, e.g. after a linear correction
		}
		cs[i] = tcue{s, e, fmt.Sprintf("t%d", i)}
		if e > maxEnd {
			maxEnd = e
		}
	}
	var d int64
	switch r.Intn(6) {
	case 0: // around a boundary
		if n > 0 {
			c := cs[r.Intn(n)]
			d = -fw.Pick(r, []int64{c.S, c.E, c.S + 1, c.E + 1, c.S - 1, c.E - 1})
		}
	case 1:
		d = -(maxEnd + 1)
	case 2:
		d = r.I64n(int64(24*time.Hour) + 1)
	default:
		d = r.I64n(maxEnd+int64(24*time.Hour)+2) - maxEnd - 1
	}
	return cs, d
}

func c09CLI(c *fw.Ctx) fw.Outcome {
	r := c.R
	n := r.Range(1, 8)
	cs := make([]tcue, n)
	var maxEnd int64
	var t int64
	if r.P(1, 6) {
		t = r.I64n(12 * 3600e3) // hours into the programme
	}
	for i := range cs {
		t += int64(r.Intn(5000))
		s := t
		t += int64(r.Range(1, 5000))
		cs[i] = tcue{s * 1e6, t * 1e6, fmt.Sprintf("text %d", i)}
		maxEnd = t * 1e6
	}
	d := (r.I64n(2*maxEnd/1e6+2000) - maxEnd/1e6 - 1) * 1e6
	if d == 0 {
		d = 1e6
	}
	if r.P(1, 8) {
		// a day, or more: legal shifts in both directions (SubRip counts hours up to 99 and beyond)
		d = fw.Pick(r, []int64{24 * 3600e9, -24 * 3600e9, 24*3600e9 + 1e6, 30 * 3600e9, 48 * 3600e9, -(24*3600e9 - 1e6)})
		if d < 0 {
			for i := range cs {
				cs[i].S, cs[i].E = cs[i].S+25*3600e9, cs[i].E+25*3600e9 // cues past the 24th hour, so that something is left
			}
		}
	}
	if r.P(1, 3) {
		d += r.I64n(1e6) // a shift that is not a whole number of milliseconds: the file then holds the shifted instants truncated
	}
	if r.Bool() {
		fw.Shuffle(r, cs) // the cues of a file need not be ordered by start: sync keeps the file's order
	}
	in, out, unit, formats := cliFiles(c, r, cs)
	exp := c09Spec(cs, d)
	msg, err := cli("sync", "-i", in, "-s", time.Duration(d).String(), "-o", out)
	key := hashCues(cs, uint64(d), 0xc11)
	if len(exp) == 0 {
		// nothing left to write: the CLI must fail (nothing-to-write error)
		if err == nil {
			return fw.Bad(key, nil, "CLI sync -s %v on %s removed every cue but exited 0", time.Duration(d), fmtCues(cs))
		}
		c.Count("cli_sync_runs", 1)
		return fw.OK(key, nil)
	}
	if err != nil {
		return fw.Bad(key, nil, "CLI sync -s %v on %s failed: %v %s", time.Duration(d), fmtCues(cs), err, msg)
	}
	got, err := astisub.OpenFile(out)
	if err != nil {
		return fw.Bad(key, nil, "CLI sync output unreadable: %v", err)
	}
	if len(got.Items) != len(exp) {
		return fw.Bad(key, nil, "CLI sync -s %v on %s: %d cues, specification says %d", time.Duration(d), fmtCues(cs), len(got.Items), len(exp))
	}
	for k, x := range exp {
		it := got.Items[k]
		x.s, x.e = x.s/unit*unit, x.e/unit*unit // the output format holds milliseconds or centiseconds (results are never negative)
		if int64(it.StartAt) != x.s || int64(it.EndAt) != x.e || itemText(it) != cs[x.orig].T {
			return fw.Bad(key, nil, "CLI sync -s %v (%s) on %s: cue %d is [%d,%d) %q, specification says [%d,%d) %q", time.Duration(d), formats, fmtCues(cs), k, it.StartAt, it.EndAt, itemText(it), x.s, x.e, cs[x.orig].T)
		}
	}
	c.Count("cli_sync_runs", 1)
	return fw.OK(key, map[string]interface{}{"cli": "sync", "d": d, "cues": fmtCues(cs)})
}

func simpleSRT(cs []tcue) string {
	var b []byte
	// position data behind the end time, set off by a blank, a tab or both (a function of the list)
	coords := ""
	if n := len(cs); n > 0 {
		coords = []string{"", "", " X1:100 X2:200 Y1:050 Y2:100", "\tX1:100 X2:200 Y1:050 Y2:100", " \t X1:100 X2:200 Y1:050 Y2:100"}[(int(cs[0].E/1e6)+n)%5]
	}
	for k, c := range cs {
		b = append(b, fmt.Sprintf("%d\n%s --> %s%s\n%s\n\n", k+1, srtTime(c.S), srtTime(c.E), coords, c.T)...)
	}
	// the file ends with one to four blank lines, the last of them possibly not terminated (a function of the list)
	if n := len(cs); n > 0 {
		switch (int(cs[0].S/1e6) + 3*n) % 4 {
		case 1:
			b = append(b, '\n')
		case 2:
			b = append(b, "\n\n \n"...)
		case 3:
			b = b[:len(b)-1]
		}
	}
	return string(b)
}

func srtTime(ns int64) string {
	ms := ns / 1e6
	return fmt.Sprintf("%02d:%02d:%02d,%03d", ms/3600000, ms/60000%60, ms/1000%60, ms%1000)
}

func init() {
	randomN := func(tier string) int64 { return tierN(tier, 20000, 2000000) }
	cliN := func(tier string) int64 { return tierN(tier, 96, 1000) }
	fw.Register(&fw.Property{
		ID:    "C09",
		Level: "exploration",
		Rule: "case = one cue list x a set of shifts d, checked against the executable specification of Add (shift, clamp start at 0, drop cues whose end <= 0, identity/order/content of survivors, inverse law). " +
			"Grid cases: every list of 0..4 cues (0..5 thorough) with boundaries s<=e on 0..5, in any order, x every d in [-7,7] (exhaustive); random cases: <=40 cues, ns..s granularity, d in [-max end-1, +24h]; CLI cases: 'astisub sync' on SRT files. " +
			"Cues carry inline timestamps, voices and comments; lists carry metadata of every source format; a quarter of the lists have a past (ordered, fragmented beyond the end, unfragmented, shifted forth and back, identity-corrected before, then re-timed in place); random list sizes include 11..14, 63..65, 127..129, 255..257, 511..513, 1023..1025. Cues carry inline timestamps, voices and comments; lists carry metadata of every source format; a quarter of the lists have a past (ordered, fragmented beyond the end, unfragmented, shifted forth and back, identity-corrected before, then re-timed in place); random list sizes include 11..14, 63..65, 127..129, 255..257, 511..513, 1023..1025. distinct_nontrivial = distinct (list, d-set) inputs whose result was compared.",
		Assumptions: []string{"cues satisfy start <= end (the property's precondition)", "the snapshot used for 'content untouched' covers index, comments, lines, runs, style/region/inline-style identity and first-level content"},
		Cases:       func(tier string) int64 { return c09GridLists(tier) + randomN(tier) + cliN(tier) },
		Exhaustive: func(tier string) string {
			return fmt.Sprintf("all %d lists of up to %d cues on the 0..5 grid x all 15 shifts in [-7,7] (the random and CLI parts are sampled)", c09GridLists(tier), map[bool]int{false: 4, true: 5}[tier == "thorough"])
		},
		Anchors: []string{"Subtitles.Add", "astisub/main.go sync"},
		Run: func(c *fw.Ctx) fw.Outcome {
			g := c09GridLists(c.Tier)
			switch {
			case c.Idx < g:
				cs := c09DecodeGrid(c.Idx)
				for d := int64(-7); d <= 7; d++ {
					if msg := c09Check(cs, d, c.Idx%3 == 0); msg != "" {
						return fw.Bad(hashCues(cs), nil, "%s", msg)
					}
				}
				c.Count("grid_shifts_checked", 15)
				c.Feature(fmt.Sprintf("grid len=%d", len(cs)))
				return fw.OK(hashCues(cs), map[string]interface{}{"cues": fmtCues(cs), "d": "-7..7"})
			case c.Idx < g+randomN(c.Tier):
				cs, d := c09Random(c.R)
				if msg := c09Check(cs, d, c.R.Bool()); msg != "" {
					return fw.Bad(hashCues(cs, uint64(d)), nil, "%s", msg)
				}
				c.Count("random_shifts_checked", 1)
				c.Feature(fmt.Sprintf("random len=%d sign=%v", len(cs)/10*10, d < 0))
				return fw.OK(hashCues(cs, uint64(d)), nil)
			default:
				if !haveCLI() {
					return fw.Skip()
				}
				c.Feature("cli sync")
				return c09CLI(c)
			}
		},
	})
}
