package props

import (
	"bytes"
	"fmt"
	"os"
	"path/filepath"
	"runtime"
	"strings"
	"time"

	astisub "github.com/asticode/go-astisub"
	"verif/harness/fw"
)

// C08 Totality: no reader or writer ever panics or hangs.

var c08Dict = []string{"-->", " --> ", "NOTE ", "NOTE", "STYLE", "Region: ", "Region: id=", "[Events]", "[Script Info]", "[V4+ Styles]", "[V4 Styles]", "Format:", "Format: ", "Dialogue:", "Dialogue: ",
	"Style: ", "<p", "<p>", "</p>", "begin=", "end=", "<br/>", "<span", "</tt>", "<tt", "X-TIMESTAMP-MAP", "X-TIMESTAMP-MAP=LOCAL:", "MPEGTS:", "WEBVTT", "&", "&amp;", "<", ">", "</", "{", "}", "{\\", "\\N", "::cue",
	",", ":", ";", "=", "\"", "'", ".", "00:00:00,000", "00:00:00.000", "99:99:99,999", "0", "-1", "99999999999999999999", "1e309", "region:", "align:", "line:", "<v ", "<v>", "</v>", "<c.", "<00:00:01.000>",
	"\n", "\r", "\r\n", "\n\n", "\t", " ", "\x00", "\xef\xbb\xbf", "\xff", "\xc3", "Marked=1", "&H", "&Hzz", "t", "f", "ms", "h", "frameRate=\"", "tickRate=\"0\"", "xml:id=", "style=\"", "region=\"nope\"", "<![CDATA[", "]]>", "<!--", "<?xml"}

func splitLines(b []byte) [][]byte {
	return bytes.SplitAfter(b, []byte("\n"))
}

// c08Mutate applies 1..3 structure-aware or byte-level mutations
func c08Mutate(r *fw.Rand, doc []byte, other []byte, format string) ([]byte, string) {
	b := append([]byte(nil), doc...)
	var names []string
	for k := 0; k < r.Range(1, 3); k++ {
		if len(b) == 0 {
			b = []byte(fw.Pick(r, c08Dict))
		}
		m := r.Intn(18)
		switch m {
		case 0: // truncate anywhere
			b = b[:r.Intn(len(b)+1)]
			names = append(names, "truncate")
		case 1: // truncate at a line boundary / after a token
			if i := bytes.LastIndexByte(b[:r.Intn(len(b))+1], '\n'); i >= 0 {
				b = b[:i+r.Intn(2)]
			}
			names = append(names, "truncate-line")
		case 2: // delete / duplicate / swap lines
			ls := splitLines(b)
			if len(ls) > 1 {
				i, j := r.Intn(len(ls)), r.Intn(len(ls))
				switch r.Intn(3) {
				case 0:
					ls = append(ls[:i:i], ls[i+1:]...)
				case 1:
					ls = append(ls[:i:i], append([][]byte{ls[i]}, ls[i:]...)...)
				default:
					ls[i], ls[j] = ls[j], ls[i]
				}
				b = bytes.Join(ls, nil)
			}
			names = append(names, "lines")
		case 3: // splice with another document
			if len(other) > 0 {
				i, j := r.Intn(len(b)+1), r.Intn(len(other)+1)
				b = append(append([]byte(nil), b[:i]...), other[j:]...)
			}
			names = append(names, "splice")
		case 4: // byte flips
			for n := 0; n < r.Range(1, 4); n++ {
				b[r.Intn(len(b))] ^= byte(1 << uint(r.Intn(8)))
			}
			names = append(names, "bitflip")
		case 5: // random bytes
			for n := 0; n < r.Range(1, 4); n++ {
				b[r.Intn(len(b))] = byte(r.Intn(256))
			}
			names = append(names, "randbyte")
		case 6, 7: // dictionary token inserted or overwriting
			tok := []byte(fw.Pick(r, c08Dict))
			i := r.Intn(len(b) + 1)
			if m == 6 {
				b = append(b[:i:i], append(tok, b[i:]...)...)
			} else {
				end := i + len(tok)
				if end > len(b) {
					end = len(b)
				}
				b = append(b[:i:i], append(tok, b[end:]...)...)
			}
			names = append(names, "dict")
		case 8: // delete what follows a token on its line
			tok := []byte(fw.Pick(r, []string{"-->", ":", "=", ",", "begin", "end", "<", "Format", "."}))
			if i := bytes.Index(b, tok); i >= 0 {
				// pick a random occurrence
				idxs := []int{}
				for off := 0; ; {
					j := bytes.Index(b[off:], tok)
					if j < 0 {
						break
					}
					idxs = append(idxs, off+j)
					off += j + 1
				}
				i = idxs[r.Intn(len(idxs))] + len(tok)
				e := bytes.IndexByte(b[i:], '\n')
				if e < 0 {
					e = len(b) - i
				}
				b = append(b[:i:i], b[i+e:]...)
			}
			names = append(names, "cut-after-token")
		case 9: // numeric extremes: replace a digit run
			i := r.Intn(len(b))
			for i < len(b) && (b[i] < '0' || b[i] > '9') {
				i++
			}
			j := i
			for j < len(b) && b[j] >= '0' && b[j] <= '9' {
				j++
			}
			if i < len(b) {
				b = append(b[:i:i], append([]byte(fw.Pick(r, []string{"", "0", "-5", "99999999999999999999", "60", "100", "1.5"})), b[j:]...)...)
			}
			names = append(names, "number")
		case 10: // remove a chunk
			i, j := r.Intn(len(b)), r.Intn(len(b))
			if i > j {
				i, j = j, i
			}
			b = append(b[:i:i], b[j:]...)
			names = append(names, "cut")
		case 11: // STL field mutators
			if format == "stl" && len(b) >= 1024 {
				switch r.Intn(6) {
				case 0:
					copy(b[3:11], fw.Pick(r, []string{"STL24.01", "        ", "STL25.02", "stl25.01", "\x00\x00\x00\x00\x00\x00\x00\x00"}))
				case 1:
					copy(b[12:14], fw.Pick(r, []string{"01", "  ", "99", "\x00\x00"}))
				case 2:
					b[11] = fw.Pick(r, []byte{' ', '3', 0, 'x'})
				case 3:
					copy(b[256:264], fw.Pick(r, []string{"1       ", "100000  ", "  000000", "abcdefgh", "99999999", "0000000 "}))
				case 4:
					copy(b[224:236], fw.Pick(r, []string{"999999999999", "      000000", "1302301     "}))
				default:
					for _, off := range [][2]int{{236, 238}, {238, 243}, {251, 253}, {253, 255}, {272, 274}} {
						if r.P(1, 3) {
							for q := off[0]; q < off[1]; q++ {
								b[q] = fw.Pick(r, []byte{'x', ' ', '-', '9'})
							}
						}
					}
				}
				if nb := (len(b) - 1024) / 128; nb > 0 {
					blk := 1024 + 128*r.Intn(nb)
					if r.Bool() {
						b[blk+r.Intn(16)] = byte(r.Intn(256))
					} else {
						for q := 0; q < r.Range(1, 20); q++ {
							b[blk+16+r.Intn(112)] = byte(r.Intn(256))
						}
					}
				}
			}
			names = append(names, "stl-field")
		case 12: // empties
			b = bytes.Replace(b, []byte(fw.Pick(r, []string{" ", "\n", ":", ",", "0"})), nil, r.Range(1, 5))
			names = append(names, "remove-chars")
		case 14, 15: // the value of a quoted attribute (TTML, WebVTT regions, SRT font tags) replaced by another one
			var spans [][2]int
			for i := 0; i+2 < len(b); i++ {
				if b[i] == '=' && (b[i+1] == '"' || b[i+1] == '\'') {
					if e := bytes.IndexByte(b[i+2:], b[i+1]); e >= 0 && e < 200 {
						spans = append(spans, [2]int{i + 2, i + 2 + e})
					}
				}
			}
			if len(spans) > 0 {
				// several values at once now and then: a combination of attributes may be what it takes
				for n := r.Range(1, 3); n > 0 && len(spans) > 0; n-- {
					k := r.Intn(len(spans))
					sp := spans[k]
					if sp[0] < 0 || sp[1] < sp[0] || sp[1] > len(b) {
						break
					}
					v := []byte(fw.Pick(r, c08Values))
					if r.P(1, 4) {
						v = []byte(fw.Pick(r, []string{" ", "  ", "\t", "\n", " \t "})) // present, but nothing in it
					}
					b = append(b[:sp[0]:sp[0]], append(v, b[sp[1]:]...)...)
					d := len(v) - (sp[1] - sp[0])
					// the spans that lie wholly behind the replaced one move with the text; those that overlap it (a quote
					// inside a quoted value) are gone
					var rest [][2]int
					for q, x := range spans {
						switch {
						case q == k:
						case x[1] <= sp[0]:
							rest = append(rest, x)
						case x[0] >= sp[1]:
							rest = append(rest, [2]int{x[0] + d, x[1] + d})
						}
					}
					spans = rest
				}
			}
			names = append(names, "attr-value")
		case 16: // one cell of a comma- or space-separated line replaced (SSA styles and events, cue settings, timing lines)
			ls := splitLines(b)
			if len(ls) > 0 {
				i := r.Intn(len(ls))
				sep := fw.Pick(r, []string{",", " ", ":"})
				cells := bytes.Split(ls[i], []byte(sep))
				cells[r.Intn(len(cells))] = []byte(fw.Pick(r, c08Values))
				ls[i] = bytes.Join(cells, []byte(sep))
				b = bytes.Join(ls, nil)
			}
			names = append(names, "cell")
		case 17: // a quoted attribute as a whole: dropped, renamed, or moved behind another attribute (of another element)
			type attr struct{ name, end int } // b[name:end] = name="value"
			var attrs []attr
			for i := 1; i+2 < len(b); i++ {
				if b[i] == '=' && (b[i+1] == '"' || b[i+1] == '\'') {
					e := bytes.IndexByte(b[i+2:], b[i+1])
					if e < 0 || e >= 200 {
						continue
					}
					n := i
					for n > 0 && (b[n-1] == ':' || b[n-1] == '-' || b[n-1] == '_' || b[n-1] >= '0' && b[n-1] <= '9' || b[n-1] >= 'a' && b[n-1] <= 'z' || b[n-1] >= 'A' && b[n-1] <= 'Z') {
						n--
					}
					if n < i {
						attrs = append(attrs, attr{n, i + 2 + e + 1})
						i += 2 + e
					}
				}
			}
			if len(attrs) > 0 {
				a := attrs[r.Intn(len(attrs))]
				whole := append([]byte(nil), b[a.name:a.end]...)
				switch r.Intn(3) {
				case 0:
					b = append(b[:a.name:a.name], b[a.end:]...)
				case 1:
					eq := bytes.IndexByte(whole, '=')
					nn := fw.Pick(r, []string{"xml:id", "id", "style", "region", "begin", "end", "dur", "tts:color", "tts:origin", "tts:extent", "ttp:frameRate", "ttp:tickRate", "xml:lang", "color", "x"})
					b = append(b[:a.name:a.name], append(append([]byte(nn), whole[eq:]...), b[a.end:]...)...)
				default:
					t := attrs[r.Intn(len(attrs))]
					if t.end <= a.name || t.name >= a.end {
						ins := append([]byte(" "), whole...)
						if t.end <= a.name {
							b = append(b[:a.name:a.name], b[a.end:]...)
							b = append(b[:t.end:t.end], append(ins, b[t.end:]...)...)
						} else {
							b = append(b[:t.end:t.end], append(ins, b[t.end:]...)...)
							b = append(b[:a.name:a.name], b[a.end:]...)
						}
					}
				}
			}
			names = append(names, "attr-whole")
		default: // repeat the document
			if len(b) < 4000 {
				b = append(b, b...)
			}
			names = append(names, "double")
		}
	}
	return b, strings.Join(names, "+")
}

// c08Values: replacement values for attributes and cells (wrong arity, wrong unit, keywords of other attributes)
var c08Values = []string{"", " ", "auto", "x", "1", "0", "-1", "10%", "10% 20% 30%", "10%  ", "%", "a b", "1px 2px", "1c", "tb", "tbrl", "tblr", "lrtb", "rl",
	"before", "after", "center", "start", "end", "left", "right", "italic", "bold", "underline", "none", "normal", "00:00:01.000", "1.5s", "-5f", "99999999999999999999t",
	"#ff0000", "#ff", "rgba(1,2)", "&H", "&Hzz", "-->", "\n", "{", "}", "<", ">", "&", ";", ",,,,,,,,,,", "1,2", "é", "\xff", "\x00", "line:1", "region:r", "id=", "width=", "NaN", "1e309"}

// ttxHostileStream: a valid packet/table layer carrying malformed PES payloads, data units and teletext packets
func ttxHostileStream(r *fw.Rand) ([]byte, astisub.TeletextOptions) {
	w := newTSWriter()
	tpid := uint16(r.Range(0x100, 0x1fe0))
	pmtPID := uint16(r.Range(0x20, 0xff))
	mag, page := r.Range(1, 8), r.Intn(100)
	tables := func() {
		w.payloadUnit(0, patSection([][2]uint16{{1, pmtPID}}), true)
		var streams []pmtStream
		switch r.Intn(5) {
		case 0: // no teletext stream at all
			streams = []pmtStream{{0x1b, 0x1ff0, nil}}
		case 1: // VBI teletext descriptor
			streams = []pmtStream{{0x06, tpid, teletextDescriptor(0x46, mag, page)}}
		default:
			streams = []pmtStream{{0x1b, 0x1ff0, nil}, {0x06, tpid, teletextDescriptor(0x56, mag, page)}}
		}
		w.payloadUnit(pmtPID, pmtSection(1, 0x1ff0, streams), true)
	}
	// "primed" streams put the reader in the receiving state first (valid tables, a valid header of the selected page),
	// so that the hostile units that follow reach the row and enhancement-packet code
	primed := r.Bool()
	if primed || !r.P(1, 8) {
		tables()
		tables()
	}
	pts := r.I64n(1 << 33)
	npes := r.Range(1, 12)
	for k := 0; k < npes; k++ {
		var payload []byte
		if primed {
			payload = []byte{0x10}
			if k == 0 || r.P(1, 4) {
				payload = append(payload, ttxUnit(0x03, 0xe4, mag, 0, ttxHeader(page, ttxHeaderFlags{subtitle: true, serial: r.Bool(), charset: r.Intn(8)}))...)
			}
			nu := r.Range(1, 5)
			for u := 0; u < nu; u++ {
				length := fw.Pick(r, []int{0x2c, 0x2c, 4, 5, 11, 12, 41, 42, 43, 44, 45, 46, 255})
				body := make([]byte, length)
				for q := range body {
					body[q] = byte(r.Intn(256))
				}
				pk := fw.Pick(r, []int{r.Range(1, 25), r.Range(1, 25), 26, 27, 28, 29, 30, 31, 0})
				m := mag & 7
				if r.P(1, 5) {
					m = r.Intn(8)
				}
				body[1] = 0xe4
				body[2], body[3] = ham84(byte(m)|byte(pk&1)<<3), ham84(byte(pk>>1))
				if length > 4 && pk >= 26 {
					body[4] = ham84(byte(fw.Pick(r, []int{0, 4, r.Intn(16)})))
				}
				payload = append(payload, append([]byte{0x03, byte(length)}, body...)...)
			}
			if r.P(1, 6) && len(payload) > 4 {
				payload = payload[:len(payload)-r.Range(1, 40)%len(payload)]
			}
			w.payloadUnit(tpid, pesPacket(0xbd, pts, r.Bool(), payload), false)
			pts += int64(r.Intn(90000))
			continue
		}
		switch r.Intn(8) {
		case 0: // empty or tiny payload
			payload = make([]byte, r.Intn(3))
		case 1:
			payload = []byte{byte(r.Intn(256))}
		default:
			payload = []byte{fw.Pick(r, []byte{0x10, 0x10, 0x10, 0x1f, 0x0f, 0x20, 0x00, 0xff})}
		}
		for u := 0; u < r.Intn(6) && len(payload) > 0; u++ {
			id := fw.Pick(r, []byte{0x03, 0x03, 0x03, 0x02, 0xff, 0x00, 0xc3})
			length := fw.Pick(r, []int{0x2c, 0x2c, 0x2c, 0, 1, 2, 3, 43, 44, 45, 255})
			body := make([]byte, length)
			for q := range body {
				body[q] = byte(r.Intn(256))
			}
			if length >= 4 {
				body[1] = fw.Pick(r, []byte{0xe4, 0xe4, 0xe4, 0x27, 0x00})
				pk := r.Intn(32)
				m := r.Intn(8)
				if r.P(2, 3) {
					m = mag & 7
				}
				body[2], body[3] = ham84(byte(m)|byte(pk&1)<<3), ham84(byte(pk>>1))
				if r.P(1, 6) {
					body[2] = byte(r.Intn(256))
				}
				if length >= 12 && r.P(2, 3) {
					// plausible header / designation bytes
					hp := page
					if r.P(1, 3) {
						hp = r.Intn(100)
					}
					h := ttxHeader(hp, ttxHeaderFlags{subtitle: r.Bool(), serial: r.Bool(), charset: r.Intn(8), erase: r.Bool()})
					copy(body[4:], h[:8])
					if pk >= 26 {
						body[4] = ham84(byte(r.Intn(16)))
					}
				}
			}
			unit := append([]byte{id, byte(length)}, body...)
			if r.P(1, 8) && len(unit) > 3 {
				unit = unit[:r.Intn(len(unit))] // truncated last unit
				payload = append(payload, unit...)
				break
			}
			payload = append(payload, unit...)
		}
		withPTS := pts
		if r.P(1, 8) {
			withPTS = -1
		}
		w.payloadUnit(tpid, pesPacket(fw.Pick(r, []byte{0xbd, 0xbd, 0xbd, 0xe0, 0xbf}), withPTS, r.Bool(), payload), false)
		pts += int64(r.Intn(90000))
		if r.P(1, 5) {
			tables()
		}
		if r.P(1, 6) {
			junk := make([]byte, 184)
			for q := range junk {
				junk[q] = byte(r.Intn(256))
			}
			w.packet(uint16(r.Range(0x20, 0x1ffe)), true, junk)
		}
	}
	opts := astisub.TeletextOptions{Page: fw.Pick(r, []int{0, 0, mag*100 + page, 100, 888, 899, -1, 1 << 20}), PID: fw.Pick(r, []int{0, 0, int(tpid), 256, 8191, 70000})}
	if primed {
		opts = astisub.TeletextOptions{Page: fw.Pick(r, []int{0, mag*100 + page}), PID: fw.Pick(r, []int{0, int(tpid)})}
	}
	return w.buf.Bytes(), opts
}

type c08Reader struct {
	name string
	read func(b []byte, r *fw.Rand) error
}

var c08Readers = []c08Reader{
	{"ReadFromSRT", func(b []byte, r *fw.Rand) error { _, err := astisub.ReadFromSRT(bytes.NewReader(b)); return err }},
	{"ReadFromWebVTT", func(b []byte, r *fw.Rand) error { _, err := astisub.ReadFromWebVTT(bytes.NewReader(b)); return err }},
	{"ReadFromTTML", func(b []byte, r *fw.Rand) error { _, err := astisub.ReadFromTTML(bytes.NewReader(b)); return err }},
	{"ReadFromSSA", func(b []byte, r *fw.Rand) error { _, err := astisub.ReadFromSSA(bytes.NewReader(b)); return err }},
	{"ReadFromSTL", func(b []byte, r *fw.Rand) error {
		_, err := astisub.ReadFromSTL(bytes.NewReader(b), astisub.STLOptions{IgnoreTimecodeStartOfProgramme: r.Bool()})
		return err
	}},
	{"ReadFromTeletext", func(b []byte, r *fw.Rand) error {
		o := astisub.TeletextOptions{Page: fw.Pick(r, []int{0, 100, 888, 899, -1, 1 << 20}), PID: fw.Pick(r, []int{0, 256, 8191, 70000})}
		_, err := astisub.ReadFromTeletext(bytes.NewReader(b), o)
		return err
	}},
}

var c08FormatReader = map[string]int{"srt": 0, "webvtt": 1, "ttml": 2, "ssa": 3, "stl": 4, "teletext": 5}

// classifyPanic tells whether a recovered panic originates in the library or inside the third-party demultiplexer
func classifyPanic(stack string) (site string, excluded bool) {
	lines := strings.Split(stack, "\n")
	// trimStack kept only astisub / astits lines, innermost first
	for _, l := range lines {
		if strings.Contains(l, "go-astits") && strings.Contains(l, "(") && !strings.Contains(l, "/repo/") {
			return "go-astits", true
		}
		if strings.Contains(l, "go-astisub") {
			break
		}
	}
	return panicSite(stack), false
}

// c08WatchedCall is the marker frame the watchdog looks for in the goroutine dump
func c08WatchedCall(f func()) { f() }

// c08WhereIsItStuck returns the innermost frames of the goroutine that is still inside c08WatchedCall
func c08WhereIsItStuck() string {
	buf := make([]byte, 1<<20)
	buf = buf[:runtime.Stack(buf, true)]
	for _, g := range strings.Split(string(buf), "\n\n") {
		if strings.Contains(g, "c08WatchedCall") && !strings.Contains(g, "c08WhereIsItStuck") {
			var frames []string
			for _, l := range strings.Split(g, "\n")[1:] {
				if !strings.HasPrefix(l, "\t") {
					frames = append(frames, l)
				}
				if len(frames) >= 4 {
					break
				}
			}
			return strings.Join(frames, " <- ")
		}
	}
	return "(goroutine not found in the dump)"
}

func c08ReaderCase(c *fw.Ctx) fw.Outcome {
	r := c.R
	format := corpusFormats[r.Intn(len(corpusFormats))]
	var doc []byte
	var origin string
	var ttOpts *astisub.TeletextOptions
	switch k := r.Intn(10); {
	case k == 0: // short pure-random byte strings
		doc = make([]byte, r.Intn(64))
		for i := range doc {
			doc[i] = byte(r.Intn(256))
		}
		origin = "random bytes"
	case k == 1 && format != "teletext":
		td := testdataDocs()
		d := td[r.Intn(len(td))]
		format = d.Format
		doc, origin = c08Mutate(r, d.Data, genDoc(r, format, false).Data, format)
		origin = "testdata " + d.Origin + " " + origin
	case format == "teletext" && k < 7:
		var o astisub.TeletextOptions
		doc, o = ttxHostileStream(r)
		ttOpts = &o
		origin = "hostile teletext stream"
		if k < 3 {
			var m string
			doc, m = c08Mutate(r, doc, nil, format)
			origin += " " + m
		}
	default:
		d := genDoc(r, format, false)
		other := genDoc(r, corpusFormats[r.Intn(len(corpusFormats))], false)
		var m string
		doc, m = c08Mutate(r, d.Data, other.Data, format)
		origin = "generated " + m
	}
	key := fw.Mix(fw.HashBytes(doc), fw.HashString(format))
	// the format's own reader first, then every other reader on the same bytes
	order := []int{c08FormatReader[format]}
	for i := range c08Readers {
		if i != order[0] {
			order = append(order, i)
		}
	}
	for n, ri := range order {
		rd := c08Readers[ri]
		if n > 0 && r.P(1, 2) {
			continue
		}
		var err error
		var p string
		cr := r
		call := func() {
			if ri == 5 && ttOpts != nil {
				p = guard(func() { _, err = astisub.ReadFromTeletext(bytes.NewReader(doc), *ttOpts) })
			} else {
				p = guard(func() { err = rd.read(doc, cr) })
			}
		}
		if ri == 5 {
			// the teletext reader delegates to a third-party demultiplexer that may itself never return: the call
			// runs under an in-process watchdog so that such a stream can be attributed and the worker goes on
			cr = fw.NewRand(r.U64()) // an abandoned goroutine must not share the case's generator
			done := make(chan struct{})
			go func() { c08WatchedCall(call); close(done) }()
			select {
			case <-done:
			case <-time.After(20 * time.Second):
				where := c08WhereIsItStuck()
				if strings.Contains(where, "go-astits") {
					c.Count("hangs_inside_demultiplexer_excluded", 1)
					continue
				}
				c08Poisoned = true
				return fw.Bad(key, fmt.Sprintf("%x", doc), "%s did not return within 20 s on a %s document (%s, %d bytes); it is executing: %s", rd.name, format, origin, len(doc), where)
			}
		} else {
			call()
		}
		c.Count("reader_calls", 1)
		if err != nil {
			c.Count("reader_errors", 1)
		}
		if p != "" {
			site, excluded := classifyPanic(p)
			if excluded {
				c.Count("panics_inside_demultiplexer_excluded", 1)
				continue
			}
			return fw.Bad(key, fmt.Sprintf("%x", doc), "%s panicked (site %s) on a %s document (%s, %d bytes): %s", rd.name, site, format, origin, len(doc), p)
		}
	}
	// the extension-dispatching opener on a real file, now and then
	if r.P(1, 20) {
		ext := fw.Pick(r, []string{".srt", ".SRT", ".ssa", ".ass", ".stl", ".ttml", ".vtt", ".ts", ".Ts", ".txt", ""})
		path := filepath.Join(c.TmpDir(), "doc"+ext)
		os.WriteFile(path, doc, 0o644)
		var err error
		p := guard(func() {
			_, err = astisub.Open(astisub.Options{Filename: path, STL: astisub.STLOptions{IgnoreTimecodeStartOfProgramme: r.Bool()}, Teletext: astisub.TeletextOptions{Page: fw.Pick(r, []int{0, 888})}})
		})
		c.Count("open_calls", 1)
		if p != "" {
			if _, excluded := classifyPanic(p); !excluded {
				return fw.Bad(key, fmt.Sprintf("%x", doc), "Open(%q) panicked on a %s document (%s): %s", ext, format, origin, p)
			}
		}
		if (ext == ".txt" || ext == "") && err != astisub.ErrInvalidExtension {
			return fw.Bad(key, nil, "Open with extension %q returned %v instead of the invalid-extension error", ext, err)
		}
	}
	c.Feature(format + " " + strings.Fields(origin)[0] + " " + lastWord(origin))
	return fw.OK(key, map[string]interface{}{"format": format, "origin": origin, "bytes": len(doc), "head": fmt.Sprintf("%q", trunc(string(doc), 120))})
}

func lastWord(s string) string {
	f := strings.Fields(s)
	return f[len(f)-1]
}

var c08Texts = []string{"", "plain", "́leading combining", "̈", "a\x00b", "ctl\x01\x02\x1f", "\xff\xfe invalid utf8", "\xc3", "astral 😀 𝔘", "{\\i1}x{", "}", "<b>unclosed", "&amp;&", "-->", "\n", "a\nb", "\r",
	"tab\there", " ", "  lead", "trail  ", "  ", "\ufeff", "١٢٣", strings.Repeat("é", 200), "x" + strings.Repeat("é", 200), "ab" + strings.Repeat("ñ", 70), "$¤Ω", " "}

func c08Attrs(r *fw.Rand) *astisub.StyleAttributes {
	if r.P(1, 3) {
		return nil
	}
	sa := &astisub.StyleAttributes{}
	if r.Bool() {
		sa = ssaSetStyleAttrs(randomSSAAttrs(r))
	}
	if r.Bool() {
		mergeTTML(sa, ttmlSetAttrs(ttmlGenAttrs(r, 8)))
	}
	if r.P(1, 3) {
		j := astisub.Justification(r.Intn(7))
		sa.STLJustification = &j
	}
	if r.P(1, 3) {
		sa.STLPosition = &astisub.STLPosition{VerticalPosition: r.Intn(300) - 20, MaxRows: r.Intn(30), Rows: r.Intn(5)}
	}
	if r.P(1, 3) {
		t, f := true, false
		sa.STLItalics, sa.STLBoxing, sa.STLUnderline = &t, &f, nil
	}
	if r.P(1, 3) {
		sa.WebVTTTags = []astisub.WebVTTTag{{Name: fw.Pick(r, []string{"", "b", "c", "v", "00:00"}), Classes: []string{"", "x"}, Annotation: fw.Pick(r, []string{"", ">", "a b"})}}
	}
	if r.P(1, 4) {
		s := fw.Pick(r, []string{"", "#ff0000", "#zzzzzz", "red"})
		sa.SRTColor, sa.TTMLColor = &s, &s
		sa.SRTBold, sa.SRTPosition = true, byte(r.Intn(12))
	}
	if r.P(1, 4) {
		sa.WebVTTStyles = []string{"::cue {", "}"}
		sa.WebVTTAlign, sa.WebVTTLine, sa.WebVTTLines, sa.WebVTTWidth = "left", "0", r.Intn(3), "40%"
	}
	if r.P(1, 4) {
		sa.SSAEffect = fw.Pick(r, c08Texts)
	}
	if r.P(1, 5) {
		sa.TeletextColor = astisub.ColorRed
	}
	return sa
}

// c08List builds a cue list with every optional pointer / map independently nil or set
func c08List(r *fw.Rand) *astisub.Subtitles {
	s := &astisub.Subtitles{}
	if r.Bool() {
		s.Regions = map[string]*astisub.Region{}
	}
	if r.Bool() {
		s.Styles = map[string]*astisub.Style{}
	}
	var styles []*astisub.Style
	for k := 0; k < r.Intn(4); k++ {
		st := &astisub.Style{ID: fw.Pick(r, []string{"s0", "s1", "", "a,b", "*x", "日本"}), InlineStyle: c08Attrs(r)}
		if len(styles) > 0 && r.Bool() {
			st.Style = styles[r.Intn(len(styles))]
		}
		styles = append(styles, st)
		if s.Styles != nil && r.P(3, 4) {
			s.Styles[st.ID] = st
		}
	}
	if len(styles) > 0 && r.P(1, 8) {
		// a style that (directly or through another one) names itself as its parent: what ReadFromTTML returns for style="s1" on s1
		a, b := styles[r.Intn(len(styles))], styles[r.Intn(len(styles))]
		a.Style, b.Style = b, a
	}
	var regions []*astisub.Region
	for k := 0; k < r.Intn(3); k++ {
		rg := &astisub.Region{ID: fw.Pick(r, []string{"r0", "r1", "", "x y"}), InlineStyle: c08Attrs(r)}
		if len(styles) > 0 && r.Bool() {
			rg.Style = styles[r.Intn(len(styles))]
		}
		regions = append(regions, rg)
		if s.Regions != nil && r.P(3, 4) {
			s.Regions[rg.ID] = rg
		}
	}
	if r.P(2, 3) {
		md := &astisub.Metadata{}
		if r.Bool() {
			md.Framerate = fw.Pick(r, []int{0, 25, 30, -1, 24, 1 << 30})
			md.Language = fw.Pick(r, []string{"", "english", "klingon"})
			md.STLDisplayStandardCode = fw.Pick(r, []string{"", "0", "1", "2", "9", "long"})
			md.SSAScriptType = fw.Pick(r, []string{"", "v4.00", "v4.00+"})
			md.Title = fw.Pick(r, c08Texts)
			md.STLTimecodeStartOfProgramme = time.Duration(r.Intn(3)-1) * time.Hour * time.Duration(r.Intn(30))
			md.STLRevisionNumber = r.Intn(300) - 50
		}
		if r.Bool() {
			t := time.Date(r.Range(1, 9999), 1, 1, 0, 0, 0, 0, time.UTC)
			md.STLCreationDate = &t
		}
		if r.Bool() {
			v := r.Intn(300) - 50
			md.STLMaximumNumberOfDisplayableRows, md.STLMaximumNumberOfDisplayableCharactersInAnyTextRow, md.SSAPlayResX = &v, &v, &v
		}
		if r.Bool() {
			md.WebVTTTimestampMap = &astisub.WebVTTTimestampMap{Local: -time.Second, MpegTS: -5}
		}
		if r.Bool() {
			md.Comments = []string{fw.Pick(r, c08Texts)}
		}
		s.Metadata = md
	}
	for k := 0; k < r.Range(0, 4); k++ {
		it := &astisub.Item{InlineStyle: c08Attrs(r), Index: r.Intn(5) - 2}
		switch r.Intn(6) {
		case 0:
			it.StartAt, it.EndAt = -time.Second, -2*time.Second
		case 1:
			it.StartAt, it.EndAt = time.Duration(1<<62), time.Duration(1<<63-1)
		case 2:
			it.StartAt, it.EndAt = 500*time.Hour, 10000*time.Hour
		default:
			it.StartAt, it.EndAt = time.Duration(r.Intn(100000))*time.Millisecond, time.Duration(r.Intn(100000))*time.Millisecond
		}
		if len(styles) > 0 && r.Bool() {
			it.Style = styles[r.Intn(len(styles))]
		}
		if len(regions) > 0 && r.Bool() {
			it.Region = regions[r.Intn(len(regions))]
		}
		if r.Bool() {
			it.Comments = []string{fw.Pick(r, c08Texts)}
		}
		switch r.Intn(5) {
		case 0: // nil Lines
		case 1:
			it.Lines = []astisub.Line{}
		case 2:
			it.Lines = []astisub.Line{{}} // a line without items
		default:
			for l := 0; l < r.Range(1, 3); l++ {
				line := astisub.Line{VoiceName: fw.Pick(r, []string{"", "", "Bob", ">", "a\nb"})}
				for q := 0; q < r.Range(0, 3); q++ {
					li := astisub.LineItem{Text: fw.Pick(r, c08Texts), InlineStyle: c08Attrs(r)}
					if r.P(1, 20) {
						li.Text = strings.Repeat("long rune é ", 9000)
					}
					if len(styles) > 0 && r.P(1, 3) {
						li.Style = styles[r.Intn(len(styles))]
					}
					if r.P(1, 4) {
						li.StartAt = time.Duration(r.Intn(5)-1) * time.Second
					}
					line.Items = append(line.Items, li)
				}
				it.Lines = append(it.Lines, line)
			}
		}
		s.Items = append(s.Items, it)
	}
	return s
}

// c08UnicodeBlock is a list whose cues hold, 32 to a cue, the 256 code points of one block (surrogates are replaced
// by U+FFFD by the conversion to string): the first 4352 writer cases sweep all of Unicode, so that one entry of a
// character table going wrong cannot hide
func c08UnicodeBlock(block int) *astisub.Subtitles {
	s := astisub.NewSubtitles()
	for k := 0; k < 8; k++ {
		var b strings.Builder
		for j := 0; j < 32; j++ {
			b.WriteRune(rune(block*256 + k*32 + j))
		}
		s.Items = append(s.Items, textItem(time.Duration(k)*time.Second, time.Duration(k+1)*time.Second, b.String()))
	}
	return s
}

func c08WriterCase(c *fw.Ctx) fw.Outcome {
	seed := c.R.U64()
	s := c08List(fw.NewRand(seed))
	if wi := c.Idx - tierN(c.Tier, 150000, 3000000); wi >= 0 && wi < sweepBlocks(c.Tier) {
		s = c08UnicodeBlock(sweepBlock(c.Tier, wi))
		seed = uint64(wi)
		c.Count("unicode_blocks_written", 1)
	}
	key := fw.Mix(seed, 0xc08)
	for _, w := range allWriters {
		var err error
		var p string
		done := make(chan struct{})
		var out []byte
		go func() { c08WatchedCall(func() { out, err, p = writeBytes(w, s) }); close(done) }()
		select {
		case <-done:
		case <-time.After(20 * time.Second):
			// the abandoned call keeps a processor busy for ever: after reporting it this worker stops exercising the library
			c08Poisoned = true
			return fw.Bad(key, seed, "%s writer did not return within 20 s on a cue list built from the public types (list seed %d); it is executing: %s", w.name, seed, c08WhereIsItStuck())
		}
		c.Count("writer_calls", 1)
		if err != nil {
			c.Count("writer_errors", 1)
		}
		if w.name == "stl" && err == nil && p == "" && (len(out) < 1024 || (len(out)-1024)%128 != 0) {
			// "returns bytes": of an EBU STL file, which is made of one 1024-byte block and 128-byte blocks whatever the text
			return fw.Bad(key, seed, "stl writer returned %d bytes on a cue list built from the public types (list seed %d): not one 1024-byte block followed by whole 128-byte blocks", len(out), seed)
		}
		if p != "" {
			return fw.Bad(key, seed, "%s writer panicked (site %s) on a cue list built from the public types (list seed %d: %d cues, metadata=%v, styles map=%v, regions map=%v): %s", w.name, panicSite(p), seed, len(s.Items), s.Metadata != nil, s.Styles != nil, s.Regions != nil, p)
		}
	}
	// the file-level writer with every extension
	if c.R.P(1, 10) {
		ext := fw.Pick(c.R, []string{".srt", ".ssa", ".ASS", ".stl", ".ttml", ".vtt", ".xyz"})
		var err error
		p := guard(func() { err = s.Write(filepath.Join(c.TmpDir(), "out"+ext)) })
		if p != "" {
			return fw.Bad(key, seed, "Subtitles.Write(%s) panicked: %s", ext, p)
		}
		if ext == ".xyz" && err != astisub.ErrInvalidExtension {
			return fw.Bad(key, seed, "Subtitles.Write with extension .xyz returned %v", err)
		}
	}
	// the transformations on the same hostile lists (they must not panic either)
	if p := guard(func() {
		s2 := c08List(fw.NewRand(seed))
		s2.Order()
		s2.Optimize()
		s2.Unfragment()
		s2.Merge(c08List(fw.NewRand(seed + 1)))
		s2.RemoveStyling()
	}); p != "" {
		c.Count("transformation_panics_on_hostile_lists", 1)
	}
	c.Feature(fmt.Sprintf("write meta=%v styles=%v regions=%v cues=%d", s.Metadata != nil, s.Styles != nil, s.Regions != nil, len(s.Items)))
	return fw.OK(key, map[string]interface{}{"list_seed": seed, "cues": len(s.Items), "metadata": s.Metadata != nil})
}

// proportionality: t(8n)/t(n) near 8 for a linear implementation, near 64 for a quadratic one
func c08Scaling(c *fw.Ctx, which int) fw.Outcome {
	type gen func(n int) func()
	mk := func(format string) gen {
		return func(n int) func() {
			r := fw.NewRand(7)
			var doc []byte
			switch format {
			case "srt":
				doc = srtRenderDoc(srtGenModelN(r, n), srtRender{eol: "\n", sep: ",", between: 1}, r)
			case "webvtt":
				var b strings.Builder
				b.WriteString("WEBVTT\n\n")
				for i := 0; i < n; i++ {
					fmt.Fprintf(&b, "%d\n00:00:01.000 --> 00:00:02.000\n<b>line</b> %d\n\n", i, i)
				}
				doc = []byte(b.String())
			case "ssa":
				var b strings.Builder
				b.WriteString("[Script Info]\nTitle: t\n\n[Events]\nFormat: Start, End, Text\n")
				for i := 0; i < n; i++ {
					fmt.Fprintf(&b, "Dialogue: 0:00:01.00,0:00:02.00,{\\i1}line\\N%d\n", i)
				}
				doc = []byte(b.String())
			case "ttml":
				var b strings.Builder
				b.WriteString(`<tt xmlns="http://www.w3.org/ns/ttml"><body><div>`)
				for i := 0; i < n; i++ {
					fmt.Fprintf(&b, `<p begin="00:00:01.000" end="00:00:02.000"><span>line</span><br/>%d</p>`, i)
				}
				b.WriteString(`</div></body></tt>`)
				doc = []byte(b.String())
			case "stl":
				m := stlModel{G: stlGenGSI(r)}
				for i := 0; i < n; i++ {
					m.Cues = append(m.Cues, stlCue{TCI: [4]byte{0, 0, 1, 0}, TCO: [4]byte{0, 0, 2, 0}, tf: []byte("line")})
					m.order = append(m.order, i)
				}
				doc = stlEncodeDoc(m, r)
			}
			rd := corpusReader(format, astisub.TeletextOptions{})
			return func() { rd(bytes.NewReader(doc)) }
		}
	}
	mkw := func(w namedWriter) gen {
		return func(n int) func() {
			s := astisub.NewSubtitles()
			for i := 0; i < n; i++ {
				s.Items = append(s.Items, textItem(time.Duration(i)*time.Second, time.Duration(i+1)*time.Second, fmt.Sprintf("line %d", i)))
			}
			return func() { var b bytes.Buffer; w.write(*s, &b) }
		}
	}
	names := []string{"read srt", "read webvtt", "read ssa", "read ttml", "read stl"}
	gens := []gen{mk("srt"), mk("webvtt"), mk("ssa"), mk("ttml"), mk("stl")}
	for _, w := range allWriters {
		names = append(names, "write "+w.name)
		gens = append(gens, mkw(w))
	}
	if which >= len(gens) {
		return fw.Skip()
	}
	measure := func(f func()) time.Duration {
		best := time.Duration(1 << 62)
		for i := 0; i < 3; i++ {
			t0 := time.Now()
			f()
			if d := time.Since(t0); d < best {
				best = d
			}
		}
		return best
	}
	const n = 1500
	// a measurement in the doubtful band is repeated (a loaded machine inflates the long run more than the short one):
	// the smallest ratio seen in up to four attempts is the one judged
	var t1, t8 time.Duration
	ratio := 0.0
	for attempt := 0; attempt < 4; attempt++ {
		a, b := measure(gens[which](n)), measure(gens[which](8*n))
		if r := float64(b) / float64(a+1); attempt == 0 || r < ratio {
			t1, t8, ratio = a, b, r
		}
		if ratio <= 12 {
			break
		}
		c.Count("scaling_measurements_repeated", 1)
	}
	c.Count("scaling_measurements", 1)
	key := fw.HashString(names[which])
	desc := fmt.Sprintf("%s: %d cues in %v, %d cues in %v, ratio %.1f", names[which], n, t1, 8*n, t8, ratio)
	switch {
	case ratio > 40 && t8 > time.Second:
		return fw.Bad(key, nil, "time is not proportional to the input: %s (a linear implementation sits near 8, a quadratic one near 64)", desc)
	case ratio > 12 && t8 > 200*time.Millisecond:
		return fw.Outcome{Status: fw.Inconclusive, Detail: "scaling between linear and quadratic: " + desc}
	}
	c.Feature("scaling " + names[which])
	return fw.OK(key, desc)
}

var c08Digest string

// set once a library call was abandoned in an endless loop (it keeps spinning): the rest of this worker's cases are skipped
var c08Poisoned bool

func init() {
	rN := func(tier string) int64 { return tierN(tier, 150000, 3000000) }
	wN := func(tier string) int64 { return tierN(tier, 50000, 1000000) }
	fw.Register(&fw.Property{
		ID:    "C08",
		Level: "exploration",
		Rule: "reader cases: a seed document (valid documents of every format from the C01-C06 generators, the repository's testdata, hostile transport streams with a valid packet/table layer and malformed PES payloads / data-unit lengths {0,1,2,3,43,44,45,255} / framing codes / Hamming bytes / packet numbers 0..31 / truncated units / missing tables, or short random bytes) is put through 1..3 mutators (truncate anywhere / at a line boundary, delete-duplicate-swap lines, splice two documents, bit flips, random bytes, dictionary tokens inserted or overwriting, values of quoted attributes and cells of separated lines replaced from a list of wrong-arity/wrong-unit/foreign-keyword values (one to three at once), whole attributes dropped / renamed / moved to another element, cut what follows a token, numeric extremes and empties, chunk removal, STL GSI/TTI field mutators, character removal, doubling) and fed to its own reader and to about half of the other five readers, with random reader options (STL ignore-TCP; teletext page in {0,100,888,899,-1,2^20}, PID in {0,256,8191,70000} and the true values), and now and then through Open on a real file with every extension. Oracle: recover() around each call + worker exit status (fatal errors) + stall detector (a case that does not finish within 40 s is re-run alone three times; three time-outs = violation with the goroutine dump, otherwise inconclusive); a panic whose innermost frames are inside go-astits is counted as excluded. " +
			"writer cases: the first 272 (thorough: 4352) write every block of 256 code points of the BMP and one block of every other plane (thorough: all 17 planes), 32 characters to a cue, through the five writers; then cue lists built from the public types with every optional pointer/map independently nil or set, nil/empty Lines and Items, hostile text (leading combining marks, NUL and controls, invalid UTF-8, astral runes, 100 kB lines), negative and huge times, odd metadata, through all five writers and Subtitles.Write. thorough tier: 10 scaling measurements (n vs 8n cues; >40x and >1 s = violation, 12..40x = inconclusive). distinct_nontrivial = distinct inputs.",
		Assumptions:  []string{"'never loops forever' is decided as bounded progress (40 s stall limit per case, confirmed by three isolated re-runs); 'time proportional to the input' as a three-valued scaling measurement", "nil *Item elements and map keys different from the definition's id are not 'optional parts' and are not generated"},
		Cases:        func(tier string) int64 { return rN(tier) + wN(tier) + tierN(tier, 0, 10) },
		StallSeconds: 40,
		Setup: func(c *fw.Ctx) error {
			c08Digest = stateDigest()
			datasegMark()
			return nil
		},
		Final: func(c *fw.Ctx) []fw.Outcome {
			if d := stateDigest(); d != c08Digest {
				return []fw.Outcome{fw.Bad(2, nil, "the package state digest changed while reading and writing hostile inputs (%s -> %s): a call left mutable package state behind", c08Digest, d)}
			}
			if o := datasegVerdict("while reading and writing hostile inputs"); o.Status == fw.Violated {
				return []fw.Outcome{o}
			}
			return nil
		},
		Anchors: []string{"ReadFromSRT", "ReadFromWebVTT", "ReadFromTTML", "ReadFromSSAWithOptions", "ReadFromSTL", "ReadFromTeletext", "Open", "WriteToSRT", "WriteToSSA", "WriteToSTL", "WriteToTTML", "WriteToWebVTT"},
		Run: func(c *fw.Ctx) fw.Outcome {
			if c08Poisoned {
				c.Count("cases_skipped_after_a_hang", 1)
				return fw.Skip()
			}
			switch {
			case c.Idx < rN(c.Tier):
				return c08ReaderCase(c)
			case c.Idx < rN(c.Tier)+wN(c.Tier):
				return c08WriterCase(c)
			}
			return c08Scaling(c, int(c.Idx-rN(c.Tier)-wN(c.Tier)))
		},
	})
}
