package props

import (
	"fmt"
	"os"
	"path/filepath"
	"sort"
	"strings"
	"time"

	astisub "github.com/asticode/go-astisub"
	"verif/harness/fw"
)

// C12 Order (stable sort by start) and Merge (ordered union, receiver wins, argument unchanged).

func c12Items(r *fw.Rand, n int, tag string, span int, base, unit int64) []*astisub.Item {
	items := make([]*astisub.Item, n)
	for k := range items {
		s := base + int64(r.Intn(span))*unit
		if r.P(1, 12) {
			s += fw.Pick(r, []int64{40 * 3600e9, 2600 * 3600e9}) // a stray cue far beyond the others
		}
		items[k] = decorate(textItem(time.Duration(s), time.Duration(s+int64(r.Intn(5))*unit), fmt.Sprintf("%s%d", tag, k)), k+r.Intn(3))
		if items[k].InlineStyle == nil && r.Bool() {
			// an Aegisub layer, higher layers listed first: ordering looks at the start and at nothing else
			layer := n - k
			items[k].InlineStyle = &astisub.StyleAttributes{SSALayer: &layer}
		}
	}
	return items
}

func c12StableSorted(items []*astisub.Item) []*astisub.Item {
	out := append([]*astisub.Item(nil), items...)
	sort.SliceStable(out, func(i, j int) bool { return out[i].StartAt < out[j].StartAt })
	return out
}

func samePtrs(a, b []*astisub.Item) bool {
	if len(a) != len(b) {
		return false
	}
	for k := range a {
		if a[k] != b[k] {
			return false
		}
	}
	return true
}

func c12Desc(items []*astisub.Item) string {
	var s []string
	for _, i := range items {
		s = append(s, fmt.Sprintf("%s@%d", itemText(i), i.StartAt))
	}
	return strings.Join(s, " ")
}

type c12Defs struct {
	regions map[string]*astisub.Region
	styles  map[string]*astisub.Style
}

func c12MakeDefs(r *fw.Rand, owner string, ids []string) c12Defs {
	d := c12Defs{map[string]*astisub.Region{}, map[string]*astisub.Style{}}
	for _, id := range ids {
		if r.Bool() {
			d.regions[id] = &astisub.Region{ID: id, InlineStyle: &astisub.StyleAttributes{WebVTTWidth: owner}}
			if r.P(1, 4) {
				d.regions[id].InlineStyle = nil // a bare definition (an identifier and nothing else) is a definition too
			}
		}
		if r.Bool() {
			d.styles[id] = &astisub.Style{ID: id, InlineStyle: &astisub.StyleAttributes{SSAFontName: owner}}
			if r.Bool() {
				d.styles[id].InlineStyle.WebVTTStyles = []string{"::cue { color: " + owner + " }"}
			}
			if r.P(1, 4) {
				d.styles[id].InlineStyle = nil
			}
		}
	}
	// regions rely on styles of their own list, styles inherit from styles of their own list (sorted keys: deterministic)
	var sk []string
	for k := range d.styles {
		sk = append(sk, k)
	}
	sort.Strings(sk)
	for _, id := range ids {
		if rg := d.regions[id]; rg != nil && len(sk) > 0 && r.Bool() {
			rg.Style = d.styles[fw.Pick(r, sk)]
		}
		if st := d.styles[id]; st != nil && len(sk) > 1 && r.P(1, 3) {
			if p := d.styles[fw.Pick(r, sk)]; p != st && p.Style == nil {
				st.Style = p
			}
		}
	}
	return d
}

func c12Run(c *fw.Ctx) fw.Outcome {
	r := c.R
	span := fw.Pick(r, []int{1, 2, 3, 8, 50})
	na, nb := listSize(r, 30), listSize(r, 30)
	if r.P(1, 10) {
		na = 0
	}
	if r.P(1, 10) {
		nb = 0
	}
	// the instants: nanoseconds around zero, or ordinary programme times, or hours into a long tape, or counted from
	// the Unix epoch as live streams do
	base := fw.Pick(r, []int64{0, 0, 0, 0, 40 * 3600e9, 100 * 3600e9, 2600 * 3600e9, 1790000000e9 + 1})
	unit := fw.Pick(r, []int64{1, 1, 1e6, 1e9})
	aItems, bItems := c12Items(r, na, "a", span, base, unit), c12Items(r, nb, "b", span, base, unit)
	if na > 0 && nb > 0 && r.P(1, 3) {
		// round 13: some cues of B show the same words over the same interval as a cue of A (the "[music]" cue of two
		// language tracks): they are cues of their own all the same, none of them is a duplicate to be dropped
		for j := 1 + r.Intn(3); j > 0; j-- {
			a := aItems[r.Intn(na)]
			bItems[r.Intn(nb)] = textItem(a.StartAt, a.EndAt, a.String())
		}
	}
	key := fw.Mix(fw.HashString(c12Desc(aItems)), fw.HashString(c12Desc(bItems)), uint64(c.Idx))

	// Order
	{
		s := &astisub.Subtitles{Items: append([]*astisub.Item(nil), aItems...)}
		snaps := map[*astisub.Item]string{}
		for _, i := range aItems {
			snaps[i] = fmt.Sprintf("%d %d %s", i.StartAt, i.EndAt, snapItem(i))
		}
		if c.Idx%4 == 1 {
			// the list has been ordered before and was re-timed in place since
			if p := guard(func() { prewarm(s) }); p != "" {
				return fw.Bad(key, nil, "%s", p)
			}
			c.Count("order_on_lists_with_a_past", 1)
		}
		if p := guard(func() { s.Order() }); p != "" {
			return fw.Bad(key, nil, "%s", p)
		}
		if exp := c12StableSorted(aItems); !samePtrs(s.Items, exp) {
			return fw.Bad(key, nil, "Order on %s gives %s, stable sort gives %s", c12Desc(aItems), c12Desc(s.Items), c12Desc(exp))
		}
		for _, i := range s.Items {
			if snaps[i] != fmt.Sprintf("%d %d %s", i.StartAt, i.EndAt, snapItem(i)) {
				return fw.Bad(key, nil, "Order changed the content of cue %s", itemText(i))
			}
		}
	}

	// Merge
	ids := []string{"x", "y", "z", "w", "astisub-webvtt-default-style-id"}
	da, db := c12MakeDefs(r, "A", ids), c12MakeDefs(r, "B", ids)
	kind := r.Intn(4)
	var a *astisub.Subtitles
	switch kind {
	case 0: // built with the constructor
		a = astisub.NewSubtitles()
		for k, v := range da.regions {
			a.Regions[k] = v
		}
		for k, v := range da.styles {
			a.Styles[k] = v
		}
	case 1: // built without the constructor: nil maps
		a = &astisub.Subtitles{}
		da = c12Defs{map[string]*astisub.Region{}, map[string]*astisub.Style{}}
	case 2: // as returned by the teletext reader (no maps)
		a = &astisub.Subtitles{}
		da = c12Defs{map[string]*astisub.Region{}, map[string]*astisub.Style{}}
		a.Metadata = &astisub.Metadata{}
	default: // literal with only one map
		a = &astisub.Subtitles{Styles: map[string]*astisub.Style{}}
		for k, v := range da.styles {
			a.Styles[k] = v
		}
		da.regions = map[string]*astisub.Region{}
	}
	if (kind == 0 || kind == 3) && r.P(1, 8) {
		// an identifier the receiver holds without a definition (reserved, or blanked by the caller): it is A's and stays
		id := fw.Pick(r, ids)
		a.Styles[id], da.styles[id] = nil, nil
		if kind == 0 && r.Bool() {
			a.Regions[id], da.regions[id] = nil, nil
		}
		c.Count("merge_receivers_with_a_reserved_identifier", 1)
	}
	a.Items = append([]*astisub.Item(nil), aItems...)
	// receiver may itself be unordered; the statement orders the union "the same way" (stable, A ahead of B)
	b := &astisub.Subtitles{Items: append([]*astisub.Item(nil), bItems...), Regions: db.regions, Styles: db.styles}
	if r.P(1, 6) {
		b = astisub.NewSubtitles()
		b.Items = append([]*astisub.Item(nil), bItems...)
		db = c12Defs{map[string]*astisub.Region{}, map[string]*astisub.Style{}}
	}
	// the caller may have renamed one of B's definitions (e.g. to avoid a clash) without re-keying B's maps:
	// the identifier of a definition is its ID
	renamedR, renamedS := "", ""
	if r.P(1, 6) {
		for k, v := range b.Regions {
			if _, clash := da.regions["renamed-"+k]; !clash {
				v.ID = "renamed-" + k
				renamedR = k
			}
			break
		}
		for k, v := range b.Styles {
			v.ID = "renamed-" + k
			renamedS = k
			break
		}
	}
	// cues refer to the definitions of their own list (deterministic choice: smallest keys first)
	refer := func(items []*astisub.Item, regions map[string]*astisub.Region, styles map[string]*astisub.Style) {
		var rk, sk []string
		for k := range regions {
			rk = append(rk, k)
		}
		for k := range styles {
			sk = append(sk, k)
		}
		sort.Strings(rk)
		sort.Strings(sk)
		for _, it := range items {
			if len(rk) > 0 && r.Bool() {
				it.Region = regions[fw.Pick(r, rk)]
			}
			if len(sk) > 0 && r.Bool() {
				it.Style = styles[fw.Pick(r, sk)]
				if r.Bool() {
					it.Lines[0].Items[0].Style = styles[fw.Pick(r, sk)]
				}
			}
		}
	}
	refer(aItems, a.Regions, a.Styles)
	refer(bItems, b.Regions, b.Styles)
	bSnapItems := append([]*astisub.Item(nil), b.Items...)
	bSnap := c12Desc(b.Items)
	bDeep := make([]string, len(bItems))
	for k, it := range bItems {
		bDeep[k] = snapItem(it)
	}
	bRegions, bStyles := map[string]*astisub.Region{}, map[string]*astisub.Style{}
	for k, v := range b.Regions {
		bRegions[k] = v
	}
	for k, v := range b.Styles {
		bStyles[k] = v
	}
	aDefsBefore := map[string]string{}
	for k, v := range a.Regions {
		if v != nil {
			aDefsBefore["region "+k] = fmt.Sprintf("%+v / %+v", *v, v.InlineStyle)
		}
	}
	for k, v := range a.Styles {
		if v != nil {
			aDefsBefore["style "+k] = fmt.Sprintf("%+v / %+v", *v, v.InlineStyle)
		}
	}
	if p := guard(func() { a.Merge(b) }); p != "" {
		return fw.Bad(key, nil, "Merge (receiver kind %d, %d+%d cues, B has %d regions %d styles): %s", kind, na, nb, len(db.regions), len(db.styles), p)
	}
	exp := c12StableSorted(append(append([]*astisub.Item(nil), aItems...), bItems...))
	if !samePtrs(a.Items, exp) {
		return fw.Bad(key, nil, "Merge: A=%s B=%s gives %s, ordered union is %s", c12Desc(aItems), c12Desc(bItems), c12Desc(a.Items), c12Desc(exp))
	}
	// unions, A wins
	if renamedR != "" {
		if got := a.Regions["renamed-"+renamedR]; got != bRegions[renamedR] {
			return fw.Bad(key, nil, "Merge: B's region with ID %q (stored under key %q in B) is not in A under its identifier", "renamed-"+renamedR, renamedR)
		}
		delete(a.Regions, "renamed-"+renamedR)
	}
	if renamedS != "" {
		if got := a.Styles["renamed-"+renamedS]; got != bStyles[renamedS] {
			return fw.Bad(key, nil, "Merge: B's style with ID %q (stored under key %q in B) is not in A under its identifier", "renamed-"+renamedS, renamedS)
		}
		delete(a.Styles, "renamed-"+renamedS)
	}
	for _, id := range ids {
		var wantR *astisub.Region
		if v, ok := da.regions[id]; ok {
			wantR = v
		} else if v, ok := db.regions[id]; ok && id != renamedR {
			wantR = v
		}
		if got := a.Regions[id]; got != wantR {
			return fw.Bad(key, nil, "Merge: region %q in A is %v, expected %v (A wins on clash, B's added otherwise)", id, got, wantR)
		}
		var wantS *astisub.Style
		if v, ok := da.styles[id]; ok {
			wantS = v
		} else if v, ok := db.styles[id]; ok && id != renamedS {
			wantS = v
		}
		if got := a.Styles[id]; got != wantS {
			return fw.Bad(key, nil, "Merge: style %q in A is %v, expected %v", id, got, wantS)
		}
	}
	// A's own definitions are what they were (winning a clash does not mean absorbing the loser)
	for k, v := range a.Regions {
		if before, ok := aDefsBefore["region "+k]; ok && v != nil && before != fmt.Sprintf("%+v / %+v", *v, v.InlineStyle) {
			return fw.Bad(key, nil, "Merge changed the receiver's own region %q: %s -> %s", k, before, fmt.Sprintf("%+v / %+v", *v, v.InlineStyle))
		}
	}
	for k, v := range a.Styles {
		if before, ok := aDefsBefore["style "+k]; ok && v != nil && before != fmt.Sprintf("%+v / %+v", *v, v.InlineStyle) {
			return fw.Bad(key, nil, "Merge changed the receiver's own style %q: %s -> %s", k, before, fmt.Sprintf("%+v / %+v", *v, v.InlineStyle))
		}
	}
	if len(a.Regions) > len(ids) || len(a.Styles) > len(ids) {
		return fw.Bad(key, nil, "Merge: unexpected extra definitions in A")
	}
	// B unchanged
	if !samePtrs(b.Items, bSnapItems) || c12Desc(b.Items) != bSnap || len(b.Regions) != len(bRegions) || len(b.Styles) != len(bStyles) {
		return fw.Bad(key, nil, "Merge changed its argument: B was %s, is %s", bSnap, c12Desc(b.Items))
	}
	for k, it := range bItems {
		if snapItem(it) != bDeep[k] {
			return fw.Bad(key, nil, "Merge changed its argument: cue %s of B was %s, is %s", itemText(it), bDeep[k], snapItem(it))
		}
	}
	for k, v := range bRegions {
		if b.Regions[k] != v {
			return fw.Bad(key, nil, "Merge changed B's region %q", k)
		}
	}
	for k, v := range bStyles {
		if b.Styles[k] != v {
			return fw.Bad(key, nil, "Merge changed B's style %q", k)
		}
	}
	ties := 0
	for k := 1; k < len(exp); k++ {
		if exp[k].StartAt == exp[k-1].StartAt {
			ties++
		}
	}
	c.Count("equal_start_neighbours", int64(ties))
	c.Feature(fmt.Sprintf("recv=%d na=%d nb=%d span=%d", kind, na/8*8, nb/8*8, span))
	return fw.OK(key, map[string]interface{}{"A": c12Desc(aItems), "B": c12Desc(bItems), "receiver_kind": kind})
}

func c12CLI(c *fw.Ctx) fw.Outcome {
	r := c.R
	mk := func(tag string) []tcue {
		n := r.Range(1, 6)
		cs := make([]tcue, n)
		for i := range cs {
			s := int64(r.Intn(8)) * 500
			cs[i] = tcue{s * 1e6, (s + 400) * 1e6, fmt.Sprintf("%s%d", tag, i)}
		}
		return cs
	}
	a, b := mk("A"), mk("B")
	// the two files and the result in SubRip, or in any mix of formats (all times are multiples of 500 ms)
	fa, fo, ea, eo, _ := cliPickIO(c.R)
	fb, _, eb, _, _ := cliPickIO(c.R)
	if c.R.P(1, 5) {
		// two SubStation scripts merged into a third
		fa, fb, fo = cliFormats[4], cliFormats[4+c.R.Intn(2)], cliFormats[4+c.R.Intn(2)]
		ea, eb, eo = fa.ext, fb.ext, fo.ext
	}
	ina, inb := filepath.Join(c.TmpDir(), fw.Pick(c.R, []string{"a", "Show [en], part 1"})+"."+ea), filepath.Join(c.TmpDir(), fw.Pick(c.R, []string{"b", "b 100% (x)"})+"."+eb)
	out := filepath.Join(c.TmpDir(), fw.Pick(c.R, []string{"out", "out, merged [%d]"})+"."+eo)
	da, db := fa.doc(a), fb.doc(b)
	ssaBoth := fa.unit == 1e7 && fb.unit == 1e7 && fo.unit == 1e7
	if ssaBoth {
		// both scripts define the style Default, each its own way: the first file's definition is the one kept
		da, db = simpleSSAFont(a, fa.ext == "ass", "FontOfA"), simpleSSAFont(b, fb.ext == "ass", "FontOfB")
	}
	os.WriteFile(ina, []byte(da), 0o644)
	os.WriteFile(inb, []byte(db), 0o644)
	out = outPath(c.R, ina, out)
	key := hashCues(append(append([]tcue(nil), a...), b...), 0xc12)
	msg, err := cli("merge", "-i", ina, "-i", inb, "-o", out)
	if err != nil {
		return fw.Bad(key, nil, "CLI merge failed: %v %s", err, msg)
	}
	got, err := astisub.OpenFile(out)
	if err != nil {
		return fw.Bad(key, nil, "CLI merge output unreadable: %v", err)
	}
	exp := append(append([]tcue(nil), a...), b...)
	sort.SliceStable(exp, func(i, j int) bool { return exp[i].S < exp[j].S })
	if x, y := fmtCues(exp), fmtCues(cuesOf(got.Items)); x != y {
		return fw.Bad(key, nil, "CLI merge of %s (%s) and %s (%s) into %s: got %s, ordered union %s", fmtCues(a), ea, fmtCues(b), eb, filepath.Base(out), y, x)
	}
	if ssaBoth {
		st := got.Styles["Default"]
		if st == nil || st.InlineStyle == nil || st.InlineStyle.SSAFontName != "FontOfA" {
			return fw.Bad(key, nil, "CLI merge of two scripts that both define the style Default (%s, %s into %s): the merged script does not hold the first file's definition (font FontOfA): %+v", ea, eb, filepath.Base(out), st)
		}
		c.Count("cli_merge_style_clashes", 1)
	}
	c.Count("cli_merge_runs", 1)
	return fw.OK(key, map[string]interface{}{"cli": "merge", "A": fmtCues(a), "B": fmtCues(b)})
}

// c12CLIDefs: the CLI's merge keeps the union of the definitions, referenced or not
func c12CLIDefs(c *fw.Ctx) fw.Outcome {
	mk := func(prefix string, shared bool) string {
		ids := []string{prefix + "1", prefix + "2"}
		if shared {
			ids = append(ids, "common")
		}
		var b strings.Builder
		b.WriteString(`<tt xmlns="http://www.w3.org/ns/ttml" xmlns:tts="http://www.w3.org/ns/ttml#styling"><head><styling>`)
		for _, id := range ids {
			fmt.Fprintf(&b, `<style xml:id="s%s" tts:color="%s"/>`, id, prefix)
		}
		b.WriteString(`</styling><layout>`)
		for _, id := range ids {
			fmt.Fprintf(&b, `<region xml:id="r%s" tts:extent="10%% 10%%"/>`, id)
		}
		fmt.Fprintf(&b, `</layout></head><body><div><p begin="00:00:0%d.000" end="00:00:09.000" style="s%s1">%s</p></div></body></tt>`, c.R.Range(1, 5), prefix, prefix)
		return b.String()
	}
	ina, inb := filepath.Join(c.TmpDir(), "a.ttml"), filepath.Join(c.TmpDir(), "b.ttml")
	out := filepath.Join(c.TmpDir(), "out.ttml")
	os.WriteFile(ina, []byte(mk("A", true)), 0o644)
	os.WriteFile(inb, []byte(mk("B", true)), 0o644)
	out = outPath(c.R, ina, out)
	if msg, err := cli("merge", "-i", ina, "-i", inb, "-o", out); err != nil {
		return fw.Bad(0xc12d, nil, "CLI merge of two TTML documents failed: %v %s", err, msg)
	}
	got, err := astisub.OpenFile(out)
	if err != nil {
		return fw.Bad(0xc12d, nil, "CLI merge output unreadable: %v", err)
	}
	want := "sA1,sA2,sB1,sB2,scommon"
	if keysOf(got.Styles) != want || keysOf(got.Regions) != strings.ReplaceAll(want, "s", "r") {
		return fw.Bad(0xc12d, nil, "CLI merge of two TTML documents: styles {%s} regions {%s}, the union of the definitions is {%s}", keysOf(got.Styles), keysOf(got.Regions), want)
	}
	if st := got.Styles["scommon"]; st == nil || st.InlineStyle == nil || st.InlineStyle.TTMLColor == nil || *st.InlineStyle.TTMLColor != "A" {
		return fw.Bad(0xc12d, nil, "CLI merge: on an identifier clash the first document's definition must win")
	}
	c.Count("cli_merge_definition_runs", 1)
	return fw.OK(0xc12d, "cli merge of TTML documents with unreferenced definitions")
}

func init() {
	libN := func(tier string) int64 { return tierN(tier, 40000, 1500000) }
	cliN := func(tier string) int64 { return tierN(tier, 96, 1000) }
	fw.Register(&fw.Property{
		ID:          "C12",
		Level:       "exploration",
		Rule:        "case = a pair of random cue lists (0..30 cues each, starts drawn from 1..50 distinct values so equal starts are frequent) and random region/style maps over 4 ids with arbitrary overlap; receiver built by NewSubtitles(), &Subtitles{} (nil maps), teletext-like, or with one map only. Oracle: Order == stable sort (pointer identity); Merge == stable-sorted A++B, union of maps with A winning, B deep-unchanged. CLI: 'astisub merge'. Cues refer to definitions of their own list and B is compared cue by cue through a pointer-aware snapshot; list sizes include the thresholds 12/64/256/1024; a quarter of the Order calls run on a list with a past (see C09). distinct_nontrivial = distinct (A,B) pairs compared.",
		Assumptions: []string{"map keys equal the definitions' ids"},
		Cases:       func(tier string) int64 { return libN(tier) + cliN(tier) },
		Anchors:     []string{"Subtitles.Order", "Subtitles.Merge", "astisub/main.go merge"},
		Run: func(c *fw.Ctx) fw.Outcome {
			if c.Idx < libN(c.Tier) {
				return c12Run(c)
			}
			if !haveCLI() {
				return fw.Skip()
			}
			c.Feature("cli merge")
			if c.Idx%4 == 3 {
				return c12CLIDefs(c)
			}
			return c12CLI(c)
		},
	})
}
