//go:build !race

package props

const raceEnabled = false
