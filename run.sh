#!/bin/bash
# ./run.sh <ID> <quick|thorough>      run one check against /repo's current working tree
# ./run.sh replay <path>              re-run the single case recorded in a replay file
set -u
cd "$(dirname "$0")"
export GOFLAGS=-mod=mod GOPROXY=off GOSUMDB=off GOTOOLCHAIN=local
export VERIF_ROOT="$PWD"
ID=${1:?usage: run.sh <ID> <quick|thorough> | replay <path>}
TIER=${2:-quick}
mkdir -p bin tmp evidence replay
# VERIF_REPO lets a background sweep run against a snapshot of the repository (vp run --with-repo); registered checks use /repo
REPO=${VERIF_REPO:-/repo}
export VERIF_REPO=$REPO
cmp -s $REPO/go.sum harness/go.sum || cp $REPO/go.sum harness/go.sum
MODFILE=""
if [ "$REPO" != /repo ]; then
  sed "s#=> /repo#=> $REPO#" harness/go.mod > tmp/go-$$.mod; cp harness/go.sum tmp/go-$$.sum; MODFILE="-modfile=$VERIF_ROOT/tmp/go-$$.mod"
fi
if [ "$ID" = replay ]; then tag=replay-$$; else tag=$ID-$TIER-$$; fi
RACE=""
if [ "$ID" = C20 ] || { [ "$ID" = replay ] && grep -q '"property": "C20"' "$TIER" 2>/dev/null; }; then RACE="-race"; fi
# the monitor binary (links the library with the verif hooks on) and the CLI, both from /repo as it is now
if ! (cd harness && go build $MODFILE -tags verif $RACE -o ../bin/vcheck-$tag ./cmd/vcheck) 2> tmp/build-$tag.log; then
  cat tmp/build-$tag.log; echo "BUILD-FAILED property=$ID (the monitor could not be built against /repo)"; rm -f tmp/build-$tag.log; exit 2
fi
if ! (cd $REPO && go build -o "$VERIF_ROOT/bin/astisub-$tag" ./astisub) 2>> tmp/build-$tag.log; then
  cat tmp/build-$tag.log; echo "BUILD-FAILED property=$ID (the CLI could not be built)"; rm -f tmp/build-$tag.log bin/vcheck-$tag; exit 2
fi
rm -f tmp/build-$tag.log
export VERIF_CLI="$VERIF_ROOT/bin/astisub-$tag"
if [ "$ID" = replay ]; then
  ./bin/vcheck-$tag replay "$TIER"; rc=$?
else
  ./bin/vcheck-$tag run "$ID" "$TIER"; rc=$?
fi
rm -f bin/vcheck-$tag bin/astisub-$tag tmp/go-$$.mod tmp/go-$$.sum
exit $rc
