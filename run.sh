#!/bin/bash
# ./run.sh <ID> <quick|thorough>      run one check against /repo's current working tree
# ./run.sh replay <path>              re-run the single case recorded in a replay file
set -u
cd "$(dirname "$0")"
export GOFLAGS=-mod=mod GOPROXY=off GOSUMDB=off GOTOOLCHAIN=local
export VERIF_ROOT="$PWD"
ID=${1:?usage: run.sh <ID> <quick|thorough> | replay <path>}
TIER=${2:-quick}
mkdir -p bin tmp evidence replay
cmp -s /repo/go.sum harness/go.sum || cp /repo/go.sum harness/go.sum
if [ "$ID" = replay ]; then tag=replay-$$; else tag=$ID-$TIER-$$; fi
RACE=""
if [ "$ID" = C20 ] || { [ "$ID" = replay ] && grep -q '"property": "C20"' "$TIER" 2>/dev/null; }; then RACE="-race"; fi
# the monitor binary (links the library with the verif hooks on) and the CLI, both from /repo as it is now
if ! (cd harness && go build -tags verif $RACE -o ../bin/vcheck-$tag ./cmd/vcheck) 2> tmp/build-$tag.log; then
  cat tmp/build-$tag.log; echo "BUILD-FAILED property=$ID (the monitor could not be built against /repo)"; rm -f tmp/build-$tag.log; exit 2
fi
if ! (cd /repo && go build -o "$VERIF_ROOT/bin/astisub-$tag" ./astisub) 2>> tmp/build-$tag.log; then
  cat tmp/build-$tag.log; echo "BUILD-FAILED property=$ID (the CLI could not be built)"; rm -f tmp/build-$tag.log bin/vcheck-$tag; exit 2
fi
rm -f tmp/build-$tag.log
export VERIF_CLI="$VERIF_ROOT/bin/astisub-$tag"
if [ "$ID" = replay ]; then
  ./bin/vcheck-$tag replay "$TIER"; rc=$?
else
  ./bin/vcheck-$tag run "$ID" "$TIER"; rc=$?
fi
rm -f bin/vcheck-$tag bin/astisub-$tag
exit $rc
