#!/usr/bin/env python3
"""Regenerates section 7 of DESIGN.md (seeded changes and which checks catch them) from seeded/*/meta.json."""
import json,glob
rows=[]
for d in sorted(glob.glob('/verif/seeded/*/')):
    m=json.load(open(d+'meta.json'))
    rows.append((m['id'],(m.get('summary') or '').replace('\n',' ')[:170],(m.get('needs') or '').replace('\n',' ')[:150],', '.join(m.get('caught_by') or [('superseded by a fix (see meta.json)' if m.get('superseded') else 'not claimed (see meta.json)' if 'not claimed' in (m.get('note') or '') else '— (missed)')])))
out=['## 7. Seeded changes and which checks catch them','',
'Fresh sub-agents were given only the text of one property and a scratch worktree of `/repo` (nothing from `/verif`) and asked for changes that break the property while compiling and passing the 72 existing tests, each with a demonstration test; a second round was told what the first round had produced and asked for corners a randomized reference-model test would tend to miss. Every change below was confirmed in a scratch worktree (`tools_confirm_mutants.sh`: the suite passes with the change, the demonstration passes without it and fails with it) and is kept under `seeded/<id>/` (`patch.diff`, `demo_test.go`, `meta.json`). `tools_matrix.sh` applies each one to `/repo`, runs the check(s) of its property and undoes it (`git -C /repo checkout -- .`). Twelve rounds of 40 and a short thirteenth of 20 (the themes of the rounds are in the notes below the table, the instructions the sub-agents were given in `docs/seeded_prompts/`, `@ID@` standing for the property); the last column is the outcome of the final matrix over the first 480 (seed 1, the registered quick commands; earlier matrices at seeds 2 and 3 agree), run after the strengthening of round 12; the twenty of round 13 were run after the strengthening they led to. "not claimed" = the property does not settle what the change alters (reason in `meta.json`); "superseded" = the change led to a repair of `/repo` and is contained in, or neutralised by, that repair. Changes whose lines were moved by a later repair were ported by hand and re-confirmed (noted in `meta.json`); three keep the verdict of the tree they were written for (C17-m4, C17-m6, C18-m8).','',
'| id | change | needs | caught by |','|---|---|---|---|']
for r in rows:
    out.append('| %s | %s | %s | %s |'%(r[0],r[1].replace('|','\\|'),r[2].replace('|','\\|'),r[3]))
notes=open('/verif/docs/seeded_notes.md').read() if glob.glob('/verif/docs/seeded_notes.md') else ''
p='/verif/DESIGN.md'
s=open(p).read()
if '## 7. Seeded changes' in s:
    s=s[:s.index('## 7. Seeded changes')]
s=s.rstrip('\n')+'\n\n'+'\n'.join(out)+'\n\n'+notes
open(p,'w').write(s)
print(len(rows),'seeded changes')
