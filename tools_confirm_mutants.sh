#!/bin/bash
# Confirms every seeded change under /tmp/mut in a scratch worktree: suite passes with it, demo fails with it and
# passes without it. Confirmed ones are copied to /verif/seeded/<ID>-<m>/ (patch.diff, demo, meta.json).
export GOFLAGS=-mod=mod GOPROXY=off GOSUMDB=off GOTOOLCHAIN=local
WT=/tmp/wt/confirm
git -C /repo worktree remove --force $WT 2>/dev/null
git -C /repo worktree add --detach $WT HEAD -q || exit 1
for d in $(ls -d /tmp/mut/${ONLY:-C*}/); do
  id=$(basename $d)
  for m in m1 m2 m3 m4 m5 m6 m7 m8 m9 m10 m11 m12 m13 m14 m15 m16 m17 m18 m19 m20 m21 m22 m23 m24 m25; do
    [ -f $d/$m.diff ] || continue; [ -d /verif/seeded/$id-$m ] && continue
    cd $WT && git checkout -q -- . && git clean -fdq
    cp $d/${m}_demo_test.go $WT/seeded_${id}_${m}_demo_test.go
    base=$(go test -vet=off -count=1 -run "TestSeeded${id}M${m#m}" . 2>&1 | tail -1)
    if ! git apply $d/$m.diff 2>/dev/null; then echo "$id $m: PATCH DOES NOT APPLY"; continue; fi
    with=$(go test -vet=off -count=1 -run "TestSeeded${id}M${m#m}" . 2>&1 | tail -1)
    rm -f $WT/seeded_${id}_${m}_demo_test.go
    suite=$(go build ./... 2>&1 && go test -vet=off -count=1 ./... 2>&1 | grep -E "^(ok|FAIL|---)" | head -3 | tr '\n' ' ')
    ok=no
    case "$base" in ok*) case "$with" in FAIL*|*FAIL*) case "$suite" in *FAIL*) ;; *ok*) ok=yes;; esac;; esac;; esac
    echo "$id $m: confirmed=$ok | without: $base | with: $with | suite: $suite"
    if [ $ok = yes ]; then
      o=/verif/seeded/$id-$m; mkdir -p $o
      cp $d/$m.diff $o/patch.diff; cp $d/${m}_demo_test.go $o/demo_test.go
      python3 - "$d/$m.json" "$o/meta.json" "$id" "$m" <<'PY'
import json,sys
src=json.load(open(sys.argv[1]))
meta={"property":sys.argv[3],"id":sys.argv[3]+"-"+sys.argv[4],"summary":src.get("summary"),"needs":src.get("needs"),
 "confirmed":"scratch worktree of /repo HEAD: `go build ./...` and `go test -vet=off -count=1 ./...` pass with patch.diff applied; demo_test.go (copied next to the sources) passes without the patch and fails with it",
 "demo_cmd":src.get("demo_cmd"),"caught_by":[]}
json.dump(meta,open(sys.argv[2],"w"),indent=1)
PY
    fi
  done
done
cd / && git -C /repo worktree remove --force $WT
