#!/bin/bash
# Builds the monitor with -cover, runs every quick check (except the -race one) in a scratch root and lists the library
# statements that no check executed. Documentation only (docs/coverage_quick.txt); not part of any registered command.
export GOFLAGS=-mod=mod GOPROXY=off GOSUMDB=off GOTOOLCHAIN=local
R=/tmp/covroot; D=/tmp/covdata
rm -rf $R $D; mkdir -p $R/tmp $R/evidence $D; cp /verif/KNOWN_FINDINGS.json $R/
(cd /verif/harness && go build -tags verif -cover -coverpkg=github.com/asticode/go-astisub,verif/harness/cmd/vcheck -o /tmp/vcheck-cov ./cmd/vcheck) || exit 1
(cd /repo && go build -o /tmp/astisub-cov ./astisub) || exit 1
cd $R
for i in 01 02 03 04 05 06 07 08 09 10 11 12 13 14 15 16 17 18 19; do
  VERIF_ROOT=$R GOCOVERDIR=$D VERIF_CLI=/tmp/astisub-cov /tmp/vcheck-cov run C$i quick >/dev/null 2>&1
done
{
  echo "# library statements executed by the quick tier of C01..C19 (C20 is the same workload under -race)"
  go tool covdata percent -i=$D | grep go-astisub
  echo; echo "# statements never executed (file:start,end statements count)"
  go tool covdata textfmt -i=$D -o /tmp/cov.txt
  grep "go-astisub/" /tmp/cov.txt | awk '$3==0' | sed 's#github.com/asticode/go-astisub/##' | sort -t: -k1,1 -k2,2n
} > /verif/docs/coverage_quick.txt
rm -rf $R $D /tmp/vcheck-cov /tmp/astisub-cov /tmp/cov.txt
cat /verif/docs/coverage_quick.txt | head -5
