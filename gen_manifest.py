#!/usr/bin/env python3
"""Regenerates /verif/MANIFEST.json from the table below (kept next to the checks so the two do not drift)."""
import json, os, subprocess

ROOT = os.path.dirname(os.path.abspath(__file__))

TRUST = ("Trusted base: the Go toolchain and runtime, the harness's own generators/renderers/decoders and executable "
         "specifications (written independently of /repo), encoding/xml and math/big from the standard library. "
         "The verdict covers only the executions listed in the evidence file.")

C = {}

def chk(pid, level, technique, text, note, ref):
    C[pid] = dict(level=level, technique=technique, text=text, note=note, ref=ref)

chk("C09", "exploration", "executable-specification monitor over exhaustive small grids + random lists + CLI runs",
    "Every call of Add on a generated list is compared with an executable specification (shift, clamp, drop, identity, order, content, inverse law). "
    "All lists of up to 4 (thorough 5) cues on a 0..5 grid x all shifts in [-7,7] are enumerated, plus random ns-granular lists and the CLI sync command. "
    "Exploration with an exhaustive sub-domain is the right level: the function is small, its bugs are boundary bugs that the grid contains.",
    "Assumes start <= end per cue. " + TRUST, "DESIGN.md §2 C09")
chk("C10", "exploration", "executable-specification monitor (per-cue cutting) over exhaustive grids + random lists + CLI runs",
    "Fragment's result is compared, as a multiset plus ordering and 'no multiple strictly inside' predicates, with per-cue cutting; both slice-capacity situations are driven. "
    "The grids of the quantifier are enumerated (thorough: <=3 cues on 0..9 and <=4 cues on 0..6, two texts, f in 1..5), plus random ms/ns lists and the CLI.",
    "Assumes start-ordered input and f > 0. " + TRUST, "DESIGN.md §2 C10")
chk("C11", "exploration", "executable-specification monitor (fix-point merge) + derived invariants + inverse law, exhaustive grids + random + CLI",
    "Unfragment is compared with a fix-point specification, and the output is checked directly for the stated invariants (no touching same-text cues, same texts on screen at every instant); "
    "Unfragment(Fragment(L,f)) == L is checked wherever the precondition holds.",
    "Text identity is Item.String() equality; generated texts are single-line. " + TRUST, "DESIGN.md §2 C11")
chk("C12", "exploration", "executable-specification monitor (stable sort / ordered union) on random pairs of lists and maps + CLI",
    "Order and Merge are compared with a stable sort and an ordered union computed by the harness, with pointer identity, for receivers built with and without the constructor.",
    "Map keys equal definition ids. " + TRUST, "DESIGN.md §2 C12")
chk("C13", "exploration", "reachability oracle on random and reader-built reference graphs + write/read round trips + CLI",
    "The definitions left by Optimize are compared with a reachability computation over identifiers; cues, idempotence, resolvability of every remaining reference and round trips through all five codecs are checked; "
    "RemoveStyling is checked field by field.",
    "Map keys equal definition ids; references point at map objects. " + TRUST, "DESIGN.md §2 C13")
chk("C14", "exploration", "executable-specification monitor over exhaustive small timelines + random timelines",
    "ForceDuration is compared with the statement written as code for every well-formed timeline of up to 3 (thorough 4) cues on a 0..6 ms grid x d in 1..8 ms x filler, plus random longer timelines.",
    "Assumes the statement's precondition (ordered starts, non-decreasing ends, start<end, d >= 1 ms). " + TRUST, "DESIGN.md §2 C14")
chk("C15", "exploration", "exact-rational (math/big) reference monitor on random lists and reference quadruples + CLI",
    "Every boundary produced by ApplyLinearCorrection is compared with the exact rational value (<= 1 us), together with order preservation, length scaling, a1->d1, a2->d2 and untouched content.",
    "Slopes in 0.5..2 and boundaries in [0,24h]. " + TRUST, "DESIGN.md §2 C15")

chk("C01", "exploration", "reference-model monitor: generated ground truth -> renderings -> library reader; model -> library writer -> library reader and independent decoder",
    "A random cue list is rendered in the syntactic variants the format tolerates and the reader's result is compared rune by rune (text + markup) with the list; written documents are decoded by the harness's own SubRip decoder and by the library. "
    "Exploration is the right level: the input space is a grammar, the oracle is a model the library does not share code with, and the defects are interactions of rendering choices.",
    "Quantifier restrictions listed in the evidence assumptions (no white space at line edges, no '-->' in text ...). " + TRUST, "DESIGN.md §2 C01")
chk("C02", "exploration", "reference-model monitor (token-stream interpreter) in both directions + independent WebVTT decoder",
    "Ground-truth models with regions, settings, voices, tag stacks, inline timestamps, comments, STYLE blocks and timestamp maps are rendered and read; the writer's output is decoded by an independent decoder that also enforces 'regions defined before use' and proper nesting.",
    "Colour classes derived from TTMLColor are outside the statement and left unset. " + TRUST, "DESIGN.md §2 C02")
chk("C03", "exploration", "reference-model monitor with exact rational time oracle (math/big) + encoding/xml token-walk decoder",
    "Every time-expression syntax is generated with its exact rational meaning; style forests, regions, attributes, br placement, namespaces and indentation are varied; the writer is checked with any indent option through an independent XML decoder and the library reader.",
    "+-1 us is allowed where the library goes through float64 (frames, ticks, fractional offsets). " + TRUST, "DESIGN.md §2 C03")
chk("C04", "exploration", "reference-model monitor with Format-driven independent decoder + write/read/write fix-point check",
    "Models are rendered with permuted and subset Format lines, section spellings, colour radices, junk, comments and unknown sections; the writer is checked for v4 and v4+, heterogeneous styles, and byte-identical rewrite.",
    "Text is the last event column; no commas outside text. " + TRUST, "DESIGN.md §2 C04")
chk("C05", "exploration", "reference-model monitor: own GSI/TTI encoder and decoder, own transcription of the EBU Latin table, exhaustive diacritic x letter enumeration",
    "Files produced by the harness's encoder (all GSI fields, 25/30 fps, display standards 0/1/2, programme-start offsets, user-data blocks, style/colour/box codes) are read with both option values; the writer is checked with STL, absent and inherited metadata, file size, both decoders and timecode stability. Two recorded findings (pinned by goldens) are matched by exact alternative predictions.",
    "Text in the Latin repertoire and within 112 bytes. " + TRUST, "DESIGN.md §2 C05")
chk("C06", "exploration", "reference-model monitor: page schedule -> transport stream built by the harness's own TS/PES/teletext encoders -> expected cue list with frozen character tables",
    "Streams with distractor pages, serial/parallel modes, enhancement packets, parity and Hamming errors, other PIDs and table repetition are generated from a schedule whose cue list is known; the reader's result must equal it.",
    "The character tables are a frozen copy reviewed once (see DESIGN §2 C06). " + TRUST, "DESIGN.md §2 C06")
chk("C07", "exploration", "pipeline monitor: generated source documents x all 42 format pairs x operation sequences vs composed executable specifications, through the file API and the CLI binary",
    "Every (source, destination) pair is driven with styled, metadata-bearing documents, random-case extensions and 0..4 operations; the destination is re-read and compared with the composed specifications truncated to its resolution. One recorded finding (STL destination text) is matched exactly.",
    "Texts from an alphabet all involved formats represent; non-negative times. " + TRUST, "DESIGN.md §2 C07")
chk("C08", "exploration", "crash/hang monitor: recover() + child-process exit status + stall detector with isolated re-runs, over structure-aware mutations and hostile values of the public types",
    "200 k (thorough 4 M) mutated documents and hostile cue lists are fed to all readers, Open and all writers; any recovered panic, worker death or confirmed stall is a violation with the input as witness; scaling is measured in the thorough tier.",
    "'Never hangs' is bounded progress; panics whose innermost frames are inside go-astits are excluded as the statement says. " + TRUST, "DESIGN.md §2 C08")
chk("C16", "exploration", "grammar + independent decoder + reader + rewrite monitor over batched documents; exhaustive millisecond sweep in the thorough tier",
    "Through the public writers and readers only, every rendered boundary must match the format grammar, equal floor(instant) at the format's resolution, be read back as that value and be rewritten identically; thorough enumerates every millisecond of [0,24h) and every centisecond/frame boundary +-1 ns.",
    "Instants below 100 h (24 h for STL). " + TRUST, "DESIGN.md §2 C16")
chk("C17", "exploration", "schedule-injecting io.Reader monitor with event log: every single split point, one-byte reads, data-with-EOF, zero-length reads, buffer-aligned splits",
    "Each document is parsed under the all-at-once delivery and under hundreds to thousands of other delivery schedules; results must be DeepEqual (or both fail).",
    "Error text is not compared. " + TRUST, "DESIGN.md §2 C17")
chk("C18", "fault_enumeration", "fault-injecting io.Reader / io.Writer monitors enumerating the fault offset, plus kernel faults (EISDIR, /dev/full, strace ENOSPC injection) on the file helpers and the CLI",
    "For every document and every offset the stream (or destination) fails once there; the call must return a non-nil error. Fault enumeration is the right level: the quantifier is the fault position, which is finite per document and enumerated.",
    "A fault is a non-EOF error; for TTML only up to the end of the root element. " + TRUST, "DESIGN.md §2 C18")
chk("C19", "exploration", "determinism monitor: repeated, permuted, cross-process and clock-varied writes with pointer-graph-aware snapshots, the state-digest hook and a data-segment monitor (every package-level variable of the library, read from the running monitor via its symbol table and debug information)",
    "Each list is written 50 times per writer, in 24..120 writer orders, under two clocks and in fresh processes; outputs must be identical and the list untouched.",
    "Map iteration order is re-randomised by the runtime on every range. " + TRUST, "DESIGN.md §2 C19")
chk("C20", "exploration", "Go race detector (-race build of the monitor) + sequential-equality oracle + state-digest canary + data-segment monitor (every package-level variable of the library before/after), with observed-overlap evidence",
    "Rounds of 2..32 goroutines run independent readers, writers and transformations released by a barrier under GOMAXPROCS 2/4/16; a race report, a result differing from the solo run or a changed state digest is a violation; rounds without observed overlap do not count.",
    "The race detector sees only accesses that happened. " + TRUST, "DESIGN.md §2 C20")

ALL = ["C%02d" % i for i in range(1, 21)]

def main():
    checks = []
    for pid in ALL:
        if pid not in C:
            continue
        c = C[pid]
        checks.append({
            "property_id": pid,
            "quick_cmd": "./run.sh %s quick" % pid,
            "thorough_cmd": "./run.sh %s thorough" % pid,
            "evidence_file": "/verif/evidence/%s.json" % pid,
            "replay_cmd_template": "./run.sh replay {path}",
            "engine": "vcheck",
            "level_claimed": {"category": c["level"], "text": c["text"], "design_ref": c["ref"]},
            "level_note": c["note"],
            "technique": "runtime monitoring: " + c["technique"],
        })
    na = [{"property_id": pid, "reason": "monitor for this property is not built yet at this commit (planned in DESIGN.md §2); nothing is claimed"} for pid in ALL if pid not in C]
    hooks_commits = []
    try:
        out = subprocess.run(["git", "-C", "/repo", "log", "--format=%H %s"], capture_output=True, text=True).stdout
        hooks_commits = [l.split()[0] for l in out.splitlines() if l.split(" ", 1)[1].startswith("verif:")]
    except Exception:
        pass
    m = {
        "version": 1,
        "setup_cmd": "./setup.sh",
        "hooks": {
            "guard": "verif",
            "enable": "go build -tags verif (done by run.sh for every check; the only hook is /repo/verif_hooks.go, an add-only file)",
            "baseline_off_cmd": "cd /repo && GOFLAGS=-mod=mod GOPROXY=off GOSUMDB=off GOTOOLCHAIN=local go test -json -vet=off -count=1 -timeout 25m ./...",
            "source_commits": hooks_commits,
            "add_only": True,
        },
        "engines": [{
            "name": "vcheck",
            "path": "harness/cmd/vcheck",
            "serves_properties": sorted(C.keys()),
            "kind_free_text": "Go monitor binary rebuilt from /repo's working tree by run.sh on every check: driver + 16 worker processes, deterministic case lists from VERIF_SEED, reference-model / executable-specification / fault-injection monitors, race detector for C20",
        }],
        "checks": checks,
        "not_applicable": na,
        "notes": "Technique family: runtime monitoring and sanitizers. Exit 0 = held on everything explored (KNOWN-FINDING lines for findings listed in KNOWN_FINDINGS.json), exit 1 + VIOLATION line otherwise, exit 2 = the monitor could not be built against /repo. VERIF_SEED selects the case list.",
    }
    if not na:
        del m["not_applicable"]
    json.dump(m, open(os.path.join(ROOT, "MANIFEST.json"), "w"), indent=1)
    print("MANIFEST.json: %d checks, %d not_applicable" % (len(checks), len(na)))

if __name__ == "__main__":
    main()
