#!/usr/bin/env python3
"""Regenerates /verif/MANIFEST.json from the table below (kept next to the checks so the two do not drift)."""
import json, os, subprocess

ROOT = os.path.dirname(os.path.abspath(__file__))

TRUST = ("Trusted base: the Go toolchain and runtime, the harness's own generators/renderers/decoders and executable "
         "specifications (written independently of /repo), encoding/xml and math/big from the standard library. "
         "The verdict covers only the executions listed in the evidence file.")

C = {}

def chk(pid, level, technique, text, note, ref):
    C[pid] = dict(level=level, technique=technique, text=text, note=note, ref=ref)

chk("C09", "exploration", "executable-specification monitor over exhaustive small grids + random lists + CLI runs",
    "Every call of Add on a generated list is compared with an executable specification (shift, clamp, drop, identity, order, content, inverse law). "
    "All lists of up to 4 (thorough 5) cues on a 0..5 grid x all shifts in [-7,7] are enumerated, plus random ns-granular lists and the CLI sync command. "
    "Exploration with an exhaustive sub-domain is the right level: the function is small, its bugs are boundary bugs that the grid contains.",
    "Assumes start <= end per cue. " + TRUST, "DESIGN.md §2 C09")
chk("C10", "exploration", "executable-specification monitor (per-cue cutting) over exhaustive grids + random lists + CLI runs",
    "Fragment's result is compared, as a multiset plus ordering and 'no multiple strictly inside' predicates, with per-cue cutting; both slice-capacity situations are driven. "
    "The grids of the quantifier are enumerated (thorough: <=3 cues on 0..9 and <=4 cues on 0..6, two texts, f in 1..5), plus random ms/ns lists and the CLI.",
    "Assumes start-ordered input and f > 0. " + TRUST, "DESIGN.md §2 C10")
chk("C11", "exploration", "executable-specification monitor (fix-point merge) + derived invariants + inverse law, exhaustive grids + random + CLI",
    "Unfragment is compared with a fix-point specification, and the output is checked directly for the stated invariants (no touching same-text cues, same texts on screen at every instant); "
    "Unfragment(Fragment(L,f)) == L is checked wherever the precondition holds.",
    "Text identity is Item.String() equality; generated texts are single-line. " + TRUST, "DESIGN.md §2 C11")
chk("C12", "exploration", "executable-specification monitor (stable sort / ordered union) on random pairs of lists and maps + CLI",
    "Order and Merge are compared with a stable sort and an ordered union computed by the harness, with pointer identity, for receivers built with and without the constructor.",
    "Map keys equal definition ids. " + TRUST, "DESIGN.md §2 C12")
chk("C13", "exploration", "reachability oracle on random and reader-built reference graphs + write/read round trips + CLI",
    "The definitions left by Optimize are compared with a reachability computation over identifiers; cues, idempotence, resolvability of every remaining reference and round trips through all five codecs are checked; "
    "RemoveStyling is checked field by field.",
    "Map keys equal definition ids; references point at map objects. " + TRUST, "DESIGN.md §2 C13")
chk("C14", "exploration", "executable-specification monitor over exhaustive small timelines + random timelines",
    "ForceDuration is compared with the statement written as code for every well-formed timeline of up to 3 (thorough 4) cues on a 0..6 ms grid x d in 1..8 ms x filler, plus random longer timelines.",
    "Assumes the statement's precondition (ordered starts, non-decreasing ends, start<end, d >= 1 ms). " + TRUST, "DESIGN.md §2 C14")
chk("C15", "exploration", "exact-rational (math/big) reference monitor on random lists and reference quadruples + CLI",
    "Every boundary produced by ApplyLinearCorrection is compared with the exact rational value (<= 1 us), together with order preservation, length scaling, a1->d1, a2->d2 and untouched content.",
    "Slopes in 0.5..2 and boundaries in [0,24h]. " + TRUST, "DESIGN.md §2 C15")

ALL = ["C%02d" % i for i in range(1, 21)]

def main():
    checks = []
    for pid in ALL:
        if pid not in C:
            continue
        c = C[pid]
        checks.append({
            "property_id": pid,
            "quick_cmd": "./run.sh %s quick" % pid,
            "thorough_cmd": "./run.sh %s thorough" % pid,
            "evidence_file": "/verif/evidence/%s.json" % pid,
            "replay_cmd_template": "./run.sh replay {path}",
            "engine": "vcheck",
            "level_claimed": {"category": c["level"], "text": c["text"], "design_ref": c["ref"]},
            "level_note": c["note"],
            "technique": "runtime monitoring: " + c["technique"],
        })
    na = [{"property_id": pid, "reason": "monitor for this property is not built yet at this commit (planned in DESIGN.md §2); nothing is claimed"} for pid in ALL if pid not in C]
    hooks_commits = []
    try:
        out = subprocess.run(["git", "-C", "/repo", "log", "--format=%H %s"], capture_output=True, text=True).stdout
        hooks_commits = [l.split()[0] for l in out.splitlines() if l.split(" ", 1)[1].startswith("verif:")]
    except Exception:
        pass
    m = {
        "version": 1,
        "setup_cmd": "./setup.sh",
        "hooks": {
            "guard": "verif",
            "enable": "go build -tags verif (done by run.sh for every check; the only hook is /repo/verif_hooks.go, an add-only file)",
            "baseline_off_cmd": "cd /repo && GOFLAGS=-mod=mod GOPROXY=off GOSUMDB=off GOTOOLCHAIN=local go test -json -vet=off -count=1 -timeout 25m ./...",
            "source_commits": hooks_commits,
            "add_only": True,
        },
        "engines": [{
            "name": "vcheck",
            "path": "harness/cmd/vcheck",
            "serves_properties": sorted(C.keys()),
            "kind_free_text": "Go monitor binary rebuilt from /repo's working tree by run.sh on every check: driver + 16 worker processes, deterministic case lists from VERIF_SEED, reference-model / executable-specification / fault-injection monitors, race detector for C20",
        }],
        "checks": checks,
        "not_applicable": na,
        "notes": "Technique family: runtime monitoring and sanitizers. Exit 0 = held on everything explored (KNOWN-FINDING lines for findings listed in KNOWN_FINDINGS.json), exit 1 + VIOLATION line otherwise, exit 2 = the monitor could not be built against /repo. VERIF_SEED selects the case list.",
    }
    if not na:
        del m["not_applicable"]
    json.dump(m, open(os.path.join(ROOT, "MANIFEST.json"), "w"), indent=1)
    print("MANIFEST.json: %d checks, %d not_applicable" % (len(checks), len(na)))

if __name__ == "__main__":
    main()
