#!/bin/bash
# setup_cmd: warm the build cache (normal and -race) from files on disk only; checks rebuild on every run anyway
set -u
cd "$(dirname "$0")"
export GOFLAGS=-mod=mod GOPROXY=off GOSUMDB=off GOTOOLCHAIN=local
mkdir -p bin tmp evidence replay
cmp -s /repo/go.sum harness/go.sum || cp /repo/go.sum harness/go.sum
(cd harness && go build -tags verif -o ../bin/vcheck-setup ./cmd/vcheck) || exit 1
(cd harness && go build -tags verif -race -o ../bin/vcheck-setup-race ./cmd/vcheck) || exit 1
(cd /repo && go build -o /verif/bin/astisub-setup ./astisub) || exit 1
./bin/vcheck-setup list
rm -f bin/vcheck-setup bin/vcheck-setup-race bin/astisub-setup
