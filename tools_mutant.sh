#!/bin/bash
# tools_mutant.sh <patch.diff> <ID>[,<ID>...] [tier]   apply a seeded change to /repo, run the checks, undo it
set -u
patch=$1; ids=$2; tier=${3:-quick}
ROOT=$(cd "$(dirname "$0")" && pwd)
git -C /repo diff --quiet || { echo "/repo is dirty"; exit 2; }
git -C /repo apply "$patch" || { echo "patch does not apply"; exit 2; }
trap 'git -C /repo checkout -- . ; git -C /repo clean -fdq' EXIT
for id in ${ids//,/ }; do
  out=$(cd "$ROOT" && VERIF_EVIDENCE_DIR="$ROOT/tmp/evidence-mutant" timeout 1800 ./run.sh $id $tier 2>&1); rc=$?
  echo "== $id rc=$rc :: $(echo "$out" | grep -m1 -E 'VIOLATION|BUILD-FAILED' ) :: $(echo "$out" | grep -m1 'detail:' | cut -c1-300)"
done
