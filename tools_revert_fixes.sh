#!/bin/bash
# For every "fix:" commit of /repo: revert it alone in a scratch worktree of HEAD, build the monitor against that
# tree and run the mapped check: the check must report a violation (this is how each fixed defect was confirmed).
export GOFLAGS=-mod=mod GOPROXY=off GOSUMDB=off GOTOOLCHAIN=local
WT=/tmp/wt/revert
ROOT=/tmp/revert-root
MAP=${MAP:-"ba59860:C08 173cc59:C01 e627dc0:C18 b2d5245:C17 06ee6a2:C12 0b4d1b6:C13 ac28f30:C10 fc88e98:C08 c272ecb:C08 205f09e:C19 0318d87:C02 f85696f:C02 dca109f:C03 e68fc9d:C03 2da9271:C08 3a75bb0:C08 9752e16:C08 42e0b39:C04 25cc2e4:C04 2c2b3a7:C04 4fe45a0:C19 ecc7f1e:C05 9fab35d:C05 124bcb7:C05 f694db7:C05 899ba02:C08 a6568fd:C17 461629c:C08 e6de1e7:C06 354bee0:C08 96767c4:C06 09b2cb0:C17 fdaa875:C18 838c556:C18 aa22cdd:C02 6524099:C17"}
rm -rf $ROOT; mkdir -p $ROOT/tmp $ROOT/evidence
cp /verif/KNOWN_FINDINGS.json $ROOT/
git -C /repo worktree remove --force $WT 2>/dev/null
for pair in $MAP; do
  c=${pair%%:*}; id=${pair##*:}
  git -C /repo worktree add --detach $WT HEAD -q || exit 1
  if ! git -C $WT revert --no-commit $c >/dev/null 2>&1; then
    echo "$c $id: REVERT-CONFLICT"; git -C /repo worktree remove --force $WT; continue
  fi
  sed "s#=> /repo#=> $WT#" /verif/harness/go.mod > /tmp/revert.mod; cp /verif/harness/go.sum /tmp/revert.sum
  flags=""; [ $id = C20 ] && flags="-race"
  if ! (cd /verif/harness && go build -modfile=/tmp/revert.mod -tags verif $flags -o /tmp/vcheck-revert ./cmd/vcheck) 2>/tmp/revert-build.log; then
    echo "$c $id: BUILD-FAILED $(head -3 /tmp/revert-build.log | tr '\n' ' ')"; git -C /repo worktree remove --force $WT; continue
  fi
  (cd $WT && go build -o /tmp/astisub-revert ./astisub) 2>/dev/null
  out=$(cd $ROOT && VERIF_ROOT=$ROOT VERIF_CLI=/tmp/astisub-revert timeout 900 /tmp/vcheck-revert run $id quick 2>&1)
  v=$(echo "$out" | grep -c '^VIOLATION')
  echo "$c $id: violations_listed=$v :: $(git -C /repo log -1 --format=%s $c | cut -c1-70) :: $(echo "$out" | grep -m1 'detail:' | cut -c1-260)"
  git -C /repo worktree remove --force $WT
done
rm -rf $ROOT /tmp/vcheck-revert /tmp/astisub-revert /tmp/revert.mod /tmp/revert.sum
